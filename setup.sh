#!/bin/sh
# Offline setup: install the pure-python contract libraries beside the repo's interpreter
# (into /verif/.deps, git-ignored). Idempotent; every check also calls this lazily.
set -e
cd "$(dirname "$0")"
DEPS="$PWD/.deps"
if [ ! -f "$DEPS/.ok" ]; then
  (
    flock 9
    if [ ! -f "$DEPS/.ok" ]; then
      rm -rf "$DEPS"; mkdir -p "$DEPS"
      PIP_NO_INDEX=1 /venv/bin/python -m pip install -q --no-index --find-links /opt/veriftools/wheels \
         --target "$DEPS" icontract asttokens six >/dev/null 2>&1 || true
      /venv/bin/python -c "import sys; sys.path.insert(0,'$DEPS'); import icontract" && touch "$DEPS/.ok"
    fi
  ) 9>"$PWD/.deps.lock"
fi
chmod +x vf/shims/qaptools_bin/* 2>/dev/null || true
exit 0
