#!/bin/sh
# Run checks against a seeded change without touching /repo: scratch worktree of /repo's HEAD + patch,
# checks pointed at it with VERIF_REPO, evidence/replays diverted to a scratch VERIF_OUT.
# usage: tools/run_mutant.sh <patch.diff> <Cxx> [Cyy ...]     (env TIER=quick|thorough, SEED=n)
set -u
PATCH="$1"; shift
ID=$(basename "$(dirname "$PATCH")")-$$
WT=/tmp/mutrun/$ID
OUT=/tmp/mutrun/out-$ID
mkdir -p /tmp/mutrun "$OUT"
git -C /repo worktree add -q --detach "$WT" HEAD || exit 3
if ! git -C "$WT" apply "$PATCH" 2>/dev/null && ! git -C "$WT" apply -C1 "$PATCH"; then echo "PATCH DOES NOT APPLY"; git -C /repo worktree remove --force "$WT"; exit 3; fi
cd "$(dirname "$0")/.."
for C in "$@"; do
  VERIF_REPO="$WT" VERIF_OUT="$OUT" VERIF_TIER="${TIER:-quick}" VERIF_SEED="${SEED:-0}" /venv/bin/python -m vf.cli "$C" > "$OUT/$C.log" 2>&1
  RC=$?
  echo "$C exit=$RC $(grep -c '^VIOLATION' "$OUT/$C.log") violation line(s): $(grep '^VIOLATION' "$OUT/$C.log" | head -2 | cut -c1-260 | sed 's/.*# //' | tr '\n' '|')"
done
git -C /repo worktree remove --force "$WT"
[ -n "${KEEP:-}" ] && echo "kept $OUT" || rm -rf "$OUT"
