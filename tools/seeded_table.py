#!/usr/bin/env python3
"""Generate seeded/README.md from the meta.json files written by tools/eval_mutant.py."""
import glob, json, os
VERIF = os.path.dirname(os.path.dirname(os.path.abspath(__file__)))
rows = []
for f in sorted(glob.glob(os.path.join(VERIF, "seeded", "*", "meta.json"))):
    m = json.load(open(f))
    first = ""
    for c in m.get("caught_by", []):
        fs = m.get("checks", {}).get(c, {}).get("first")
        if fs:
            first = fs[0].split(":")[0].replace("|", "/")[:70]
            break
    rows.append((m["id"], m["breaks"], "yes" if m.get("confirmed") else "NO", ", ".join(m.get("caught_by", [])) or "-",
                 ", ".join("%s=%s" % (c, r["exit"]) for c, r in m.get("checks", {}).items()), first))
out = ["# Independently seeded changes", "",
       "Written by sub-agents that saw only the property text and a scratch worktree; confirmed and run by",
       "`tools/eval_mutant.py` (quick tier, seed 0).  `confirmed` = patch applies on /repo HEAD, demo exits 0 clean and non-zero",
       "patched, the repository's 75 tests pass with the patch.  Exit 1 = VIOLATION reported, 0 = not noticed, 2 = inconclusive.", "",
       "| id | breaks | confirmed | caught by | exits | first violation mechanism |", "|---|---|---|---|---|---|"]
for r in rows:
    out.append("| %s | %s | %s | %s | %s | %s |" % r)
caught = sum(1 for r in rows if r[3] != "-" and r[2] == "yes")
own = sum(1 for r in rows if r[1] in r[3].split(", ") and r[2] == "yes")
out += ["", "%d confirmed changes; %d caught by at least one check, %d by the check of the property they target." % (
    sum(1 for r in rows if r[2] == "yes"), caught, own)]
open(os.path.join(VERIF, "seeded", "README.md"), "w").write("\n".join(out) + "\n")
print(out[-1])
