#!/bin/sh
# run all checks quick on the clean tree, in 4 parallel lanes
cd /verif
run() { for c in "$@"; do s=$(date +%s); VERIF_OUT=/tmp/vout-$c VERIF_TIER=${TIER:-quick} VERIF_SEED=${SEED:-0} timeout 7200 /venv/bin/python -m vf.cli $c > /tmp/vout-$c.log 2>&1; echo "$c rc=$? $(( $(date +%s) - s ))s $(grep -c '^VIOLATION' /tmp/vout-$c.log) viol $(grep -c '^KNOWN' /tmp/vout-$c.log) known $(grep '^INCONCLUSIVE' /tmp/vout-$c.log | head -1 | cut -c1-200)"; done; }
run C01 C05 C09 C13 C17 &
run C02 C06 C10 C14 C18 &
run C03 C07 C11 C15 C19 &
run C04 C08 C12 C16 C20 &
wait
