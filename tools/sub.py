#!/usr/bin/env python3
"""CRLF-preserving exact substitution: sub.py FILE OLD NEW [count]  (OLD/NEW use \n)"""
import sys
path, old, new = sys.argv[1:4]
count = int(sys.argv[4]) if len(sys.argv) > 4 else 1
s = open(path, newline='').read()
nl = '\r\n' if '\r\n' in s else '\n'
old = old.replace('\n', nl); new = new.replace('\n', nl)
assert s.count(old) == count, (path, old, s.count(old))
open(path, 'w', newline='').write(s.replace(old, new))
