#!/bin/sh
# evaluate every delivered, not yet evaluated seeded change under /tmp/wt-out
cd /verif
rel() { case $1 in C01) echo "C04";; C02) echo "C03";; C03) echo "C16";; C04) echo "C01";; C06) echo "C09";; C07) echo "C08 C09";; C08) echo "C07";; C09) echo "C07 C08";; C05) echo "C09";; C15) echo "C02 C09";; C14) echo "C05";;  C16) echo "C03";; C19) echo "C20";; *) echo "";; esac; }
for d in /tmp/wt13-out/C*/m*; do
  [ -f "$d/patch.diff" ] && [ -f "$d/demo.py" ] || continue
  P=$(basename $(dirname $d)); M=$(basename $d); ID="r13-$P-$M"
  [ -f "seeded/$ID/meta.json" ] && continue
  python3 tools/eval_mutant.py "$d" "$ID" "$P" $(rel $P)
done
