#!/usr/bin/env python3
"""Regenerate MANIFEST.json's checks / not_applicable from tools/checks.json (kept by hand)."""
import json, os
here = os.path.dirname(os.path.dirname(os.path.abspath(__file__)))
m = json.load(open(os.path.join(here, "MANIFEST.json")))
spec = json.load(open(os.path.join(here, "tools", "checks.json")))
props = [json.loads(l)["id"] for l in open(os.path.join(here, "properties.jsonl"))]
checks = []
for pid in props:
    if pid in spec["checks"]:
        c = spec["checks"][pid]
        checks.append(dict(property_id=pid,
                           quick_cmd="./setup.sh && VERIF_TIER=quick /venv/bin/python -m vf.cli %s" % pid,
                           thorough_cmd="./setup.sh && VERIF_TIER=thorough /venv/bin/python -m vf.cli %s" % pid,
                           evidence_file="evidence/%s.json" % pid,
                           replay_cmd_template="/venv/bin/python -m vf.cli %s --replay {path}" % pid,
                           engine="vf",
                           level_claimed=dict(category=c["category"], text=c["text"], design_ref=c.get("design_ref", "DESIGN.md section 4, " + pid)),
                           level_note=c["note"], technique=c["technique"]))
m["checks"] = checks
m["not_applicable"] = [dict(property_id=p, reason=spec["not_applicable"].get(p, "check not built yet in this round; see DESIGN.md section 4")) for p in props if p not in spec["checks"]]
m["engines"][0]["serves_properties"] = [c["property_id"] for c in checks]
json.dump(m, open(os.path.join(here, "MANIFEST.json"), "w"), indent=1)
print(len(checks), "checks;", len(m["not_applicable"]), "not applicable")
