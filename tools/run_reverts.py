#!/usr/bin/env python3
"""Regression seeds: revert each `fix:` commit recorded in known_findings.json on a scratch copy and run the owning check.
Every run must exit 1 with a VIOLATION line (the defect returns => the check reports it again)."""
import json, os, subprocess, sys
VERIF = os.path.dirname(os.path.dirname(os.path.abspath(__file__)))
k = json.load(open(os.path.join(VERIF, "known_findings.json")))["findings"]
extra = {"C09": ["C07", "C08"]}
res = []
for f in k:
    if f.get("status") != "fixed":
        continue
    c = f["commit"]
    d = "/tmp/revfix/%s" % c
    os.makedirs(d, exist_ok=True)
    patch = os.path.join(d, "patch.diff")
    with open(patch, "wb") as fh:
        fh.write(subprocess.run(["git", "-C", "/repo", "diff", c, c + "^"], stdout=subprocess.PIPE).stdout)
    checks = [f["property"]]
    out = subprocess.run([os.path.join(VERIF, "tools", "run_mutant.sh"), patch] + checks, stdout=subprocess.PIPE, stderr=subprocess.STDOUT).stdout.decode()
    print(c, f["property"], out.strip()[:300])
    res.append((c, f["property"], "exit=1" in out))
print("reverted fixes detected: %d / %d" % (sum(1 for r in res if r[2]), len(res)))
