#!/usr/bin/env python3
"""Regression: every seeded change under /verif/seeded must still be reported by the check of the property it targets
(or, where recorded, by the neighbouring check that owns the mechanism).  usage: tools/recheck_seeded.py [id-prefix]"""
import glob, json, os, subprocess, sys
VERIF = os.path.dirname(os.path.dirname(os.path.abspath(__file__)))
pref = sys.argv[1] if len(sys.argv) > 1 else ""
bad = []
n = 0
for f in sorted(glob.glob(os.path.join(VERIF, "seeded", pref + "*", "meta.json"))):
    m = json.load(open(f))
    d = os.path.dirname(f)
    want = m["breaks"] if m["breaks"] in m.get("caught_by", []) else (m.get("caught_by") or [m["breaks"]])[0]
    out = subprocess.run([os.path.join(VERIF, "tools", "run_mutant.sh"), os.path.join(d, "patch.diff"), want],
                         stdout=subprocess.PIPE, stderr=subprocess.STDOUT).stdout.decode()
    ok = ("%s exit=1" % want) in out
    n += 1
    print(m["id"], want, "caught" if ok else "MISSED", flush=True)
    if not ok:
        bad.append(m["id"])
print("%d seeded changes re-run, %d no longer caught: %s" % (n, len(bad), bad))
sys.exit(1 if bad else 0)
