#!/usr/bin/env python3
"""Confirm a seeded change and run checks against it.

usage: tools/eval_mutant.py <src dir with patch.diff, demo.py, notes.md> <seed id> <owning property> [other checks ...]

Steps (all in a scratch worktree of /repo's HEAD under /tmp, removed afterwards):
  1. the patch applies on the clean tree;
  2. demo.py exits 0 on the clean tree and non-zero with the patch;
  3. the repository's own 75 tests pass with the patch;
  4. each named check (quick tier, VERIF_REPO=<scratch>, VERIF_OUT=<scratch>) - exit status and VIOLATION lines.
Writes /verif/seeded/<seed id>/{patch.diff, demo.py, notes.md, meta.json}.
"""
import json
import os
import shutil
import subprocess
import sys

VERIF = os.path.dirname(os.path.dirname(os.path.abspath(__file__)))
PY = "/venv/bin/python"


def sh(cmd, cwd=None, env=None, timeout=1800):
    e = dict(os.environ)
    if env:
        e.update(env)
    p = subprocess.run(cmd, cwd=cwd, env=e, stdout=subprocess.PIPE, stderr=subprocess.STDOUT, timeout=timeout, shell=isinstance(cmd, str))
    return p.returncode, p.stdout.decode(errors="replace")


def main():
    src, sid, prop = sys.argv[1:4]
    checks = [prop] + sys.argv[4:]
    wt = "/tmp/mutrun/eval-%s-%d" % (sid, os.getpid())
    out = wt + "-out"
    cwd = wt + "-cwd"
    os.makedirs("/tmp/mutrun", exist_ok=True)
    os.makedirs(out)
    os.makedirs(cwd)
    meta = dict(id=sid, breaks=prop, source="independent sub-agent given only the property text and a scratch worktree")
    rc, o = sh(["git", "-C", "/repo", "worktree", "add", "-q", "--detach", wt, "HEAD"])
    try:
        notes = os.path.join(src, "notes.md")
        extra_env = {}
        if os.path.exists(notes):
            txt = open(notes).read()
            if "/tmp/envshims/flatbuffers" in txt:
                extra_env["PYTHONPATH_EXTRA"] = "/tmp/envshims/flatbuffers"
        pp = wt + (":" + extra_env["PYTHONPATH_EXTRA"] if "PYTHONPATH_EXTRA" in extra_env else "")
        demo_env = {"PYTHONPATH": pp, "PYTHONDONTWRITEBYTECODE": "1"}
        for k in ("QAPTOOLS_BIN", "PYSNARK_KEYDIR"):
            pass
        demo = os.path.join(src, "demo.py")
        rc0, o0 = sh([PY, demo], cwd=cwd, env=demo_env)
        meta["demo_clean_exit"] = rc0
        rca, oa = sh(["git", "-C", wt, "apply", os.path.join(src, "patch.diff")])
        if rca != 0:
            # a later fix: commit may have inserted lines next to the ones the change edits: retry with one line of context
            rca, oa = sh(["git", "-C", wt, "apply", "-C1", os.path.join(src, "patch.diff")])
            if rca == 0:
                meta["applied_with_reduced_context"] = True
        meta["patch_applies"] = rca == 0
        if rca != 0:
            meta["error"] = oa[-400:]
        else:
            rc1, o1 = sh([PY, demo], cwd=cwd, env=demo_env)
            meta["demo_patched_exit"] = rc1
            meta["demo_patched_tail"] = o1.strip().splitlines()[-1][:300] if o1.strip() else ""
            rct, ot = sh([PY, "-m", "pytest", "-q", "-p", "no:cacheprovider", os.path.join(wt, "test")], cwd=cwd, env={"PYTHONPATH": wt})
            meta["tests_with_patch"] = ot.strip().splitlines()[-2][:100] if len(ot.strip().splitlines()) > 1 else ot[-100:]
            meta["tests_pass_with_patch"] = rct == 0 and "75 passed" in ot
            meta["checks"] = {}
            for c in checks:
                rcc, oc = sh([PY, "-m", "vf.cli", c], cwd=VERIF, env={"VERIF_REPO": wt, "VERIF_OUT": out, "VERIF_TIER": os.environ.get("TIER", "quick"),
                                                                     "VERIF_SEED": os.environ.get("SEED", "0")})
                viol = [ln for ln in oc.splitlines() if ln.startswith("VIOLATION")]
                meta["checks"][c] = dict(exit=rcc, violations=len(viol), first=[v.split("# ", 1)[-1][:240] for v in viol[:3]])
            meta["caught_by"] = [c for c, r in meta["checks"].items() if r["exit"] == 1 and r["violations"]]
    finally:
        sh(["git", "-C", "/repo", "worktree", "remove", "--force", wt])
        shutil.rmtree(out, ignore_errors=True)
        shutil.rmtree(cwd, ignore_errors=True)
    meta["confirmed"] = bool(meta.get("patch_applies") and meta.get("demo_clean_exit") == 0 and meta.get("demo_patched_exit", 0) != 0 and meta.get("tests_pass_with_patch"))
    dst = os.path.join(VERIF, "seeded", sid)
    os.makedirs(dst, exist_ok=True)
    for f in ("patch.diff", "demo.py", "notes.md"):
        if os.path.exists(os.path.join(src, f)):
            shutil.copy(os.path.join(src, f), os.path.join(dst, f))
    if os.path.exists(notes):
        meta["needs_to_manifest"] = "see notes.md"
    meta["what_was_run"] = "tools/eval_mutant.py: patch applied to a scratch worktree of /repo HEAD; demo.py on clean and patched tree; repository tests with the patch; checks %s (quick tier, seed %s) with VERIF_REPO pointing at the patched copy" % (
        checks, os.environ.get("SEED", "0"))
    json.dump(meta, open(os.path.join(dst, "meta.json"), "w"), indent=1)
    print(json.dumps({k: meta.get(k) for k in ("id", "confirmed", "patch_applies", "demo_clean_exit", "demo_patched_exit", "tests_pass_with_patch", "caught_by")}))
    for c, r in meta.get("checks", {}).items():
        print("  ", c, "exit", r["exit"], r["first"][:1])


if __name__ == "__main__":
    main()
