#!/bin/sh
# Line coverage of /repo/pysnark by the in-process workloads of the quick tier (children scripts are not traced).
# Purely informational: shows which library code no workload reaches.  usage: tools/coverage_report.sh [checks...]
cd "$(dirname "$0")/.."
D=/tmp/vfcov-$$; mkdir -p $D
for C in ${@:-C01 C02 C03 C04 C05 C06 C07 C08 C09 C10 C11 C12 C13 C14 C15 C16 C17 C19 C20}; do
  VF_COVERAGE=$D VERIF_OUT=$D/out VERIF_TIER=quick /venv/bin/python -m vf.cli $C > /dev/null 2>&1
done
cd $D && /venv/bin/python -m coverage combine -q --data-file=$D/all cov.* >/dev/null 2>&1
/venv/bin/python -m coverage report --data-file=$D/all -m --include='/repo/pysnark/*' 2>/dev/null | grep -v "zkinterface/[A-Z]" 
rm -rf $D
