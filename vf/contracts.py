"""Runtime contracts applied from the harness to the real pysnark functions (icontract).

Conditions are named functions returning plain bool, carry an explicit error class, and never use ==, bool(),
`in` or hash() on a secret object.  Conditions *record* and return True (a raising contract would abort the
program it observes); every contract counts its evaluations so that a check can tell "held" from "never run".
"""
from vf import boot

boot.ensure_deps()
import icontract  # noqa: E402


class ValueWireMismatch(Exception):
    pass


class State:
    evaluations = 0
    created = []          # strong refs to every LinComb constructed since the last clear()
    mismatches = []       # (object, value, wire value) recorded by the constructor contract
    installed = False
    val_installed = False
    val_evaluations = 0
    val_float_not_exact = 0
    track = True


def value_matches_wire(obj):
    """value ≡ eval(lc) (mod p) on the recorder's current assignment; None if lc is not a recorder LC"""
    from vf import recorder
    lc = obj.lc
    d = getattr(lc, "d", None)
    if d is None:
        return None
    v = obj.value
    if not isinstance(v, int):
        return False
    return (v - recorder.ev(lc)) % recorder.modulus == 0


def _post_init(self):
    State.evaluations += 1
    if State.track:
        State.created.append(self)
    ok = value_matches_wire(self)
    if ok is False:
        from vf import recorder
        State.mismatches.append((self, self.value, recorder.ev(self.lc) if hasattr(self.lc, "d") else None, "init"))
    return True


def install_lincomb_contract():
    """post-condition on the real LinComb.__init__ (C04's invariant at the hook)"""
    if State.installed:
        return
    import pysnark.runtime as rt
    rt.LinComb.__init__ = icontract.ensure(_post_init, error=ValueWireMismatch)(rt.LinComb.__init__)
    State.installed = True


def _ev_self(obj):
    """(signed representative of the wire expression of obj on the current assignment, modulus) or None"""
    from vf import recorder
    lc = obj.lc
    while not hasattr(lc, "d"):
        lc = getattr(lc, "lc", None)          # LinCombBool / LinCombFxp wrap a LinComb
        if lc is None:
            return None
    w = recorder.ev(lc) % recorder.modulus
    return (w if w <= recorder.modulus // 2 else w - recorder.modulus), recorder.modulus


def _post_val_int(self, result):
    """what val() hands to the program is congruent to the wire expression (integers, booleans)"""
    State.evaluations += 1
    State.val_evaluations += 1
    e = _ev_self(self)
    if e is None or isinstance(result, float) or not isinstance(result, int):
        if e is not None:
            State.mismatches.append((self, result, e[0], "val() returned a %s" % type(result).__name__))
        return True
    if (int(result) - e[0]) % e[1] != 0:
        State.mismatches.append((self, result, e[0], "val()"))
    return True


def _post_val_fxp(self, result):
    """the float reported by LinCombFxp.val(), scaled by the resolution in effect, is the wire expression"""
    import pysnark.fixedpoint as fx
    State.evaluations += 1
    State.val_evaluations += 1
    e = _ev_self(self)
    if e is None:
        return True
    w = e[0]
    iv = getattr(getattr(self, "lc", None), "value", None)
    if abs(w) >= 1 << 52 or not isinstance(iv, int) or abs(iv) >= 1 << 52:
        State.val_float_not_exact += 1
        return True            # a float cannot carry it exactly; the integer contracts cover the wire itself
    try:
        scaled = result * (1 << fx.resolution)
        ok = scaled == int(scaled) and (int(scaled) - w) % e[1] == 0
    except Exception:
        ok = False
    if not ok:
        State.mismatches.append((self, result, w, "val() at resolution %d" % fx.resolution))
    return True


def install_val_contracts():
    """post-conditions on the real val() methods: the value a program prints / returns is what the proof speaks about"""
    if State.val_installed:
        return
    import pysnark.runtime as rt
    import pysnark.boolean as bo
    import pysnark.fixedpoint as fx
    rt.LinComb.val = icontract.ensure(_post_val_int, error=ValueWireMismatch)(rt.LinComb.val)
    bo.LinCombBool.val = icontract.ensure(_post_val_int, error=ValueWireMismatch)(bo.LinCombBool.val)
    fx.LinCombFxp.val = icontract.ensure(_post_val_fxp, error=ValueWireMismatch)(fx.LinCombFxp.val)
    State.val_installed = True


def clear():
    del State.created[:]
    del State.mismatches[:]


def sweep(tag="sweep"):
    """re-evaluate the invariant over every object constructed so far (quiescent point)"""
    from vf import recorder
    n = 0
    for o in State.created:
        n += 1
        ok = value_matches_wire(o)
        if ok is False:
            if not any(m[0] is o for m in State.mismatches):
                State.mismatches.append((o, o.value, recorder.ev(o.lc), tag))
    State.evaluations += n
    return n
