"""Runtime contracts applied from the harness to the real pysnark functions (icontract).

Conditions are named functions returning plain bool, carry an explicit error class, and never use ==, bool(),
`in` or hash() on a secret object.  Conditions *record* and return True (a raising contract would abort the
program it observes); every contract counts its evaluations so that a check can tell "held" from "never run".
"""
from vf import boot

boot.ensure_deps()
import icontract  # noqa: E402


class ValueWireMismatch(Exception):
    pass


class State:
    evaluations = 0
    created = []          # strong refs to every LinComb constructed since the last clear()
    mismatches = []       # (object, value, wire value) recorded by the constructor contract
    installed = False
    track = True


def value_matches_wire(obj):
    """value ≡ eval(lc) (mod p) on the recorder's current assignment; None if lc is not a recorder LC"""
    from vf import recorder
    lc = obj.lc
    d = getattr(lc, "d", None)
    if d is None:
        return None
    v = obj.value
    if not isinstance(v, int):
        return False
    return (v - recorder.ev(lc)) % recorder.modulus == 0


def _post_init(self):
    State.evaluations += 1
    if State.track:
        State.created.append(self)
    ok = value_matches_wire(self)
    if ok is False:
        from vf import recorder
        State.mismatches.append((self, self.value, recorder.ev(self.lc) if hasattr(self.lc, "d") else None, "init"))
    return True


def install_lincomb_contract():
    """post-condition on the real LinComb.__init__ (C04's invariant at the hook)"""
    if State.installed:
        return
    import pysnark.runtime as rt
    rt.LinComb.__init__ = icontract.ensure(_post_init, error=ValueWireMismatch)(rt.LinComb.__init__)
    State.installed = True


def clear():
    del State.created[:]
    del State.mismatches[:]


def sweep(tag="sweep"):
    """re-evaluate the invariant over every object constructed so far (quiescent point)"""
    from vf import recorder
    n = 0
    for o in State.created:
        n += 1
        ok = value_matches_wire(o)
        if ok is False:
            if not any(m[0] is o for m in State.mismatches):
                State.mismatches.append((o, o.value, recorder.ev(o.lc), tag))
    State.evaluations += n
    return n
