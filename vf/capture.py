"""Capture the constraint system of one operation (or short composition) with its operands fixed."""
from vf import r1cs
from vf.gen import prog as G


class Captured:
    pass


def capture(pre_src, op_src, results, inputs, neutral, bl, res=0, p=None, ignore=False, guard=None):
    """Run pre_src (creates operands from the list I; everything it allocates is *fixed*), then op_src
    (everything it allocates is *unknown*).  Returns a Captured with the op's constraints."""
    from vf import recorder
    import pysnark.runtime as rt
    from vf.progwork import lc_of
    prog = G.Prog(pre_src, [], bl, res)
    neutral(bitlength=bl, resolution=res, modulus=p)
    ns = G.api_names()
    ns["I"] = list(inputs)
    c = Captured()
    c.exc = None
    c.phase = "pre"
    try:
        exec(compile(pre_src, "<vfpre>", "exec"), ns)
        n0, c0 = len(recorder.values), len(recorder.constraints)
        c.phase = "op"
        if ignore:
            rt.ignore_errors(True)
        exec(compile(op_src, "<vfop>", "exec"), ns)
    except Exception as e:  # noqa
        c.exc = e
    finally:
        snap = recorder.snapshot()
        G.cleanup_api_ns(ns)
        rt.guard = None
        rt._ignore_errors = False
        rt.LinComb.ONE = rt.LinComb.ONE_SAFE
    c.ns = ns
    c.snap = snap
    c.p = snap["p"]
    if c.phase == "pre":
        return c
    c.n0 = n0
    c.cons = snap["constraints"][c0:]
    c.all_cons = snap["constraints"]
    c.fixed = {i: snap["values"][i] for i in range(n0)}
    c.unknowns = list(range(n0, len(snap["values"])))
    c.result_lcs = []
    c.honest = []
    c.kinds = []
    if c.exc is None:
        for name in results:
            o = ns[name]
            for part in (o if isinstance(o, (tuple, list)) else [o]):
                lc = lc_of(part)
                if lc is None:
                    # plain python value (e.g. x >> bl): constant
                    c.result_lcs.append({0: int(part)})
                    c.kinds.append("plain")
                else:
                    c.result_lcs.append(dict(lc.d))
                    c.kinds.append(type(part).__name__)
                c.honest.append(r1cs.eval_lc(c.result_lcs[-1], snap["values"], c.p))
        c.honest = tuple(c.honest)
        c.satisfied = not r1cs.unsatisfied(c.cons, snap["values"], c.p)
    return c
