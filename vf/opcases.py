"""Single-operation cases (template + operand values) shared by the solver-based checks (C02, C03, C07, C15, C16)."""
import re

from vf.gen import prog as G

SLOT = re.compile(r"\{(\w)\}")
INPUT_SLOTS = {"i": "PrivVal", "b": "PrivValBool", "f": "PrivValFxp"}


class Case:
    """pre_src creates operands x0.. from I; op_src performs the operation; results = names to judge"""

    def __init__(self, tid, tmpl, bl, res, inputs, consts, rty):
        self.tid = tid
        self.tmpl = tmpl
        self.bl = bl
        self.res = res
        self.inputs = list(inputs)      # plain values for the input slots, in slot order
        self.consts = list(consts)      # literal texts for the constant slots, in slot order
        self.rty = rty
        pre, expr_parts = [], []
        ii = ci = 0
        self.in_kinds = []
        pos = 0
        for m in SLOT.finditer(tmpl):
            expr_parts.append(tmpl[pos:m.start()])
            s = m.group(1)
            if s in INPUT_SLOTS:
                name = "x%d" % ii
                pre.append("%s = %s(I[%d])" % (name, INPUT_SLOTS[s], ii))
                self.in_kinds.append(s)
                expr_parts.append(name)
                ii += 1
            elif s == "a":
                expr_parts.append("A")
            else:
                expr_parts.append(str(self.consts[ci]))
                ci += 1
            pos = m.end()
        expr_parts.append(tmpl[pos:])
        self.expr = "".join(expr_parts)
        self.pre_src = "\n".join(pre) + "\n"
        self.op_src = ("r = " + self.expr) if rty is not None else self.expr
        self.results = ["r"] if rty is not None else []

    def describe(self):
        return dict(tid=self.tid, expr=self.expr, inputs=self.inputs, bl=self.bl, res=self.res)

    def key(self):
        return (self.tid, self.expr, tuple(self.inputs), self.bl, self.res)


def slots(tmpl):
    return [m.group(1) for m in SLOT.finditer(tmpl)]


def int_window(bl):
    return list(range(-(1 << bl) - 2, (1 << bl) + 3))


def int_classes(bl, rnd):
    """a few integers per class: inside, boundary of the inner domain, boundary of bitlength, outside"""
    h = (1 << (bl - 1)) - 1 if bl > 0 else 0
    full = 1 << bl
    return [0, 1, -1, 2, 3, rnd.randint(-h, h), rnd.randint(0, max(1, h)), h, -h, h + 1, -h - 1, full - 1, full, -full,
            full + 1, rnd.randint(-full - 2, full + 2)]


CONST_CHOICES = {
    "k": [1, 2, 3, 4, 5, 7, 8],
    "K": [0, 1, -1, 2, -2, 3, 5, -7, 10],
    "N": [-1, -2, -3, -4, -6, 2, 3],
    "B": ["0", "1", "True", "False"],
    "e": [0, 1, 2, 3],
    "z": [0, 1],
    "Z": [0],
}


def const_values(slot, bl, res, rnd):
    if slot in CONST_CHOICES:
        return CONST_CHOICES[slot]
    if slot == "s":
        return list(range(0, bl + 1)) + [bl + 1, bl + 3, 2 * bl]
    if slot == "w":
        return sorted({1, 2, 3, max(1, bl - 1), bl, bl + 1, bl + 2})
    if slot == "c":
        return [repr(q / (1 << res)) for q in sorted({0, 1, -1, 1 << res, -(1 << res), 3, (1 << res) + 1, rnd.randint(-3 << res, 3 << res)})]
    raise KeyError(slot)


def fxp_classes(bl, res, rnd):
    h = (1 << (bl - 1)) - 1
    reps = [0, 1, -1, 1 << res, -(1 << res), (1 << res) + 1, 3, rnd.randint(-h, h), rnd.randint(-h, h), h, -h, h + 1]
    return [r / (1 << res) for r in reps]


def sample_case(tid, tmpl, rty, bl, res, rnd, exhaustive_values=None):
    ins, cs = [], []
    for s in slots(tmpl):
        if s == "i":
            ins.append(rnd.choice(exhaustive_values or int_classes(bl, rnd)))
        elif s == "b":
            ins.append(rnd.randint(0, 1))
        elif s == "f":
            ins.append(rnd.choice(fxp_classes(bl, res, rnd)))
        elif s == "a":
            pass
        else:
            cs.append(rnd.choice(const_values(s, bl, res, rnd)))
    return Case(tid, tmpl, bl, res, ins, cs, rty)


def enumerate_cases(tid, tmpl, rty, bl, res, rnd, cap=None):
    """exhaustive operand window for integer slots (bl small), all booleans, sampled constants"""
    import itertools
    sl = slots(tmpl)
    doms = []
    for s in sl:
        if s == "i":
            doms.append(("in", int_window(bl)))
        elif s == "b":
            doms.append(("in", [0, 1]))
        elif s == "f":
            doms.append(("in", fxp_classes(bl, res, rnd)))
        elif s == "a":
            continue
        else:
            doms.append(("c", const_values(s, bl, res, rnd)))
    combos = itertools.product(*[d for _, d in doms])
    n = 0
    for combo in combos:
        ins = [v for (k, _), v in zip(doms, combo) if k == "in"]
        cs = [v for (k, _), v in zip(doms, combo) if k == "c"]
        yield Case(tid, tmpl, bl, res, ins, cs, rty)
        n += 1
        if cap and n >= cap:
            return
