"""Strict readers for the iden3 binary formats (.r1cs version 1, .wtns version 2), written from the format
description.  Every length/count field is checked against the actual content; problems are collected, not raised."""
import struct


class Decoded:
    def __init__(self):
        self.problems = []

    def bad(self, msg):
        self.problems.append(msg)


def _sections(b, d, magic, want_version, want_nsec):
    if b[:4] != magic:
        d.bad("magic %r, expected %r" % (b[:4], magic))
        return None
    if len(b) < 12:
        d.bad("file shorter than its fixed header")
        return None
    ver, nsec = struct.unpack_from("<II", b, 4)
    d.version, d.nsections = ver, nsec
    if ver != want_version:
        d.bad("version %d, expected %d" % (ver, want_version))
    if nsec != want_nsec:
        d.bad("%d sections declared, expected %d" % (nsec, want_nsec))
    o = 12
    secs = {}
    order = []
    for _ in range(nsec):
        if o + 12 > len(b):
            d.bad("section table runs past the end of the file")
            return None
        t, sz = struct.unpack_from("<IQ", b, o)
        o += 12
        if o + sz > len(b):
            d.bad("section %d declares %d bytes but only %d remain" % (t, sz, len(b) - o))
            return None
        if t in secs:
            d.bad("section type %d appears twice" % t)
        secs[t] = (o, sz)
        order.append(t)
        o += sz
    if o != len(b):
        d.bad("%d trailing bytes after the last section" % (len(b) - o))
    d.section_order = order
    return secs


def read_r1cs(b):
    d = Decoded()
    secs = _sections(b, d, b"r1cs", 1, 3)
    if secs is None:
        return d
    for t in (1, 2, 3):
        if t not in secs:
            d.bad("section %d missing" % t)
            return d
    o, sz = secs[1]
    fs, = struct.unpack_from("<I", b, o)
    d.field_size = fs
    if fs != 32:
        d.bad("field size %d, expected 32" % fs)
    d.prime = int.from_bytes(b[o + 4:o + 4 + fs], "little")
    o2 = o + 4 + fs
    if sz != 4 + fs + 28:
        d.bad("header section is %d bytes, its fields need %d" % (sz, 4 + fs + 28))
        return d
    d.n_wires, d.n_pub_out, d.n_pub_in, d.n_prv_in, d.n_labels, d.n_constraints = struct.unpack_from("<IIIIQI", b, o2)
    o, sz = secs[2]
    end = o + sz
    cons = []
    try:
        for ci in range(d.n_constraints):
            lcs = []
            for part in range(3):
                n, = struct.unpack_from("<I", b, o)
                o += 4
                lc = []
                for _ in range(n):
                    w, = struct.unpack_from("<I", b, o)
                    o += 4
                    if o + fs > end:
                        raise struct.error("constraint section too short")
                    c = int.from_bytes(b[o:o + fs], "little")
                    o += fs
                    if w >= d.n_wires:
                        d.bad("constraint %d: wire id %d >= nWires %d" % (ci, w, d.n_wires))
                    if c >= d.prime:
                        d.bad("constraint %d: coefficient not canonical (>= prime)" % ci)
                    lc.append((w, c))
                if len({w for w, _ in lc}) != len(lc):
                    d.bad("constraint %d: a wire id appears twice in one linear combination" % ci)
                lcs.append(lc)
            cons.append(lcs)
    except struct.error as e:
        d.bad("constraint section truncated: %s" % e)
        return d
    if o != end:
        d.bad("constraint section declares %d bytes, its %d constraints occupy %d" % (sz, d.n_constraints, sz - (end - o)))
    d.constraints = cons
    o, sz = secs[3]
    if sz != 8 * d.n_wires:
        d.bad("wire-to-label section is %d bytes, expected 8*nWires = %d" % (sz, 8 * d.n_wires))
    d.labels = [struct.unpack_from("<Q", b, o + 8 * i)[0] for i in range(sz // 8)]
    return d


def read_wtns(b):
    d = Decoded()
    secs = _sections(b, d, b"wtns", 2, 2)
    if secs is None:
        return d
    if 1 not in secs or 2 not in secs:
        d.bad("section 1 or 2 missing")
        return d
    o, sz = secs[1]
    fs, = struct.unpack_from("<I", b, o)
    d.field_size = fs
    if fs != 32:
        d.bad("field size %d, expected 32" % fs)
    d.prime = int.from_bytes(b[o + 4:o + 4 + fs], "little")
    if sz != 4 + fs + 4:
        d.bad("header section is %d bytes, its fields need %d" % (sz, 8 + fs))
        return d
    d.n_witness, = struct.unpack_from("<I", b, o + 4 + fs)
    o, sz = secs[2]
    if sz != d.n_witness * fs:
        d.bad("witness section is %d bytes, %d values of %d bytes need %d" % (sz, d.n_witness, fs, d.n_witness * fs))
    d.values = [int.from_bytes(b[o + i * fs:o + (i + 1) * fs], "little") for i in range(sz // fs)]
    for i, v in enumerate(d.values):
        if v >= d.prime:
            d.bad("witness value %d is not canonical (>= prime)" % i)
            break
    return d
