"""Strict reader of the FlatBuffers wire format specialised to zkinterface.fbs, written from the format description
(size prefix, root uoffset, vtables, vectors, union), not from the generated accessors.  All offsets are bounds-checked
against the message they belong to; problems are collected."""
import struct


class Malformed(Exception):
    pass


def _u32(b, o):
    if o < 0 or o + 4 > len(b):
        raise Malformed("u32 read at %d outside message of %d bytes" % (o, len(b)))
    return struct.unpack_from("<I", b, o)[0]


def _i32(b, o):
    if o < 0 or o + 4 > len(b):
        raise Malformed("i32 read at %d outside message" % o)
    return struct.unpack_from("<i", b, o)[0]


def _u16(b, o):
    if o < 0 or o + 2 > len(b):
        raise Malformed("u16 read at %d outside message" % o)
    return struct.unpack_from("<H", b, o)[0]


def _u64(b, o):
    if o < 0 or o + 8 > len(b):
        raise Malformed("u64 read at %d outside message" % o)
    return struct.unpack_from("<Q", b, o)[0]


def table(b, pos):
    """absolute positions of the fields of the table at pos (None when absent)"""
    vt = pos - _i32(b, pos)
    vsz = _u16(b, vt)
    tsz = _u16(b, vt + 2)
    if vsz < 4 or vsz % 2 or vt + vsz > len(b):
        raise Malformed("vtable at %d has size %d" % (vt, vsz))
    if pos + tsz > len(b):
        raise Malformed("table at %d with inline size %d runs past the message" % (pos, tsz))
    out = []
    for i in range((vsz - 4) // 2):
        off = _u16(b, vt + 4 + 2 * i)
        if off >= tsz and off:
            raise Malformed("field offset %d outside table of size %d" % (off, tsz))
        out.append(pos + off if off else None)
    return out


def fld(f, i):
    return f[i] if i < len(f) else None


def indirect(b, o):
    return o + _u32(b, o)


def vector(b, o, elem):
    v = indirect(b, o)
    n = _u32(b, v)
    if v + 4 + n * elem > len(b):
        raise Malformed("vector of %d x %d bytes at %d runs past the message" % (n, elem, v))
    return v + 4, n


def variables(b, pos):
    f = table(b, pos)
    ids, vals = [], b""
    if fld(f, 0) is not None:
        s, n = vector(b, f[0], 8)
        ids = [_u64(b, s + 8 * i) for i in range(n)]
    if fld(f, 1) is not None:
        s, n = vector(b, f[1], 1)
        vals = bytes(b[s:s + n])
    if ids:
        if len(vals) % len(ids):
            raise Malformed("values vector of %d bytes is not a multiple of %d ids" % (len(vals), len(ids)))
        w = len(vals) // len(ids)
    else:
        if vals:
            raise Malformed("values without variable ids")
        w = 0
    return dict(ids=ids, width=w, values=[int.from_bytes(vals[i * w:(i + 1) * w], "little") for i in range(len(ids))],
                has_info=fld(f, 2) is not None)


MSG_HEADER, MSG_CONSTRAINTS, MSG_WITNESS, MSG_COMMAND = 1, 2, 3, 4


def messages(data):
    """returns (list of decoded messages, list of problems). Each message: dict(type=..., size=..., ...)"""
    out, problems = [], []
    o = 0
    while o < len(data):
        if o + 4 > len(data):
            problems.append("trailing %d bytes that cannot hold a size prefix" % (len(data) - o))
            break
        sz = struct.unpack_from("<I", data, o)[0]
        b = data[o + 4:o + 4 + sz]
        if len(b) != sz:
            problems.append("message at %d declares %d bytes, only %d remain" % (o, sz, len(b)))
            break
        o += 4 + sz
        try:
            root = _u32(b, 0)
            f = table(b, root)
            mtype = b[f[0]] if fld(f, 0) is not None else 0
            if fld(f, 1) is None:
                raise Malformed("root table without message")
            mpos = indirect(b, f[1])
            m = dict(type=mtype, size=sz)
            if mtype == MSG_HEADER:
                h = table(b, mpos)
                m["instance"] = variables(b, indirect(b, h[0])) if fld(h, 0) is not None else dict(ids=[], values=[], width=0, has_info=False)
                m["free_variable_id"] = _u64(b, h[1]) if fld(h, 1) is not None else 0
                if fld(h, 2) is not None:
                    s, n = vector(b, h[2], 1)
                    m["field_maximum"] = int.from_bytes(b[s:s + n], "little")
                    m["field_maximum_len"] = n
                else:
                    m["field_maximum"] = None
                    m["field_maximum_len"] = 0
                m["has_configuration"] = fld(h, 3) is not None
            elif mtype == MSG_CONSTRAINTS:
                c = table(b, mpos)
                cons = []
                if fld(c, 0) is not None:
                    s, n = vector(b, c[0], 4)
                    for i in range(n):
                        cp = indirect(b, s + 4 * i)
                        cf = table(b, cp)
                        cons.append([variables(b, indirect(b, cf[j])) if fld(cf, j) is not None else dict(ids=[], values=[], width=0)
                                     for j in range(3)])
                m["constraints"] = cons
            elif mtype == MSG_WITNESS:
                w = table(b, mpos)
                m["assigned"] = variables(b, indirect(b, w[0])) if fld(w, 0) is not None else dict(ids=[], values=[], width=0)
            out.append(m)
        except (Malformed, struct.error, IndexError) as e:
            problems.append("message %d malformed: %s" % (len(out), e))
            out.append(dict(type=-1, size=sz))
    return out, problems


def selftest():
    """Builder stand-in and reader agree on a hand-built message"""
    import flatbuffers
    bld = flatbuffers.Builder(16)
    bld.StartVector(8, 2, 8)
    bld.PrependUint64(9)
    bld.PrependUint64(7)
    ids = bld.EndVector()
    bld.StartVector(1, 4, 1)
    for x in (4, 3, 2, 1):
        bld.PrependByte(x)
    vals = bld.EndVector()
    bld.StartObject(3)
    bld.PrependUOffsetTRelativeSlot(0, ids, 0)
    bld.PrependUOffsetTRelativeSlot(1, vals, 0)
    v = bld.EndObject()
    bld.StartObject(1)
    bld.PrependUOffsetTRelativeSlot(0, v, 0)
    wit = bld.EndObject()
    bld.StartObject(2)
    bld.PrependUint8Slot(0, MSG_WITNESS, 0)
    bld.PrependUOffsetTRelativeSlot(1, wit, 0)
    root = bld.EndObject()
    bld.FinishSizePrefixed(root)
    data = bld.Output()
    ms, probs = messages(data + data)
    ok = (not probs and len(ms) == 2 and ms[0]["type"] == MSG_WITNESS and ms[0]["assigned"]["ids"] == [7, 9]
          and ms[0]["assigned"]["values"] == [0x0201, 0x0403] and ms[0]["assigned"]["width"] == 2)
    return [] if ok else [("flatbuffers stand-in / reader disagree", ms, probs)]
