"""Parser / evaluator for the qaptools text formats written by pysnark.qaptools.backend (from the grammar:
`coef var ... * coef var ... = coef var ... [.]`, `[function] fname call`, `[ioblock] ctx name wires...`,
`[external] ...`, `[glue] ctx1 bn1 ctx2 bn2`; wire / I-O files `name: value`; schedule lines)."""

P = 21888242871839275222246405745257275088548364400416034343698204186575808495617


class ParseError(Exception):
    pass


def parse_values(text):
    out = {}
    for ln in text.splitlines():
        ln = ln.strip()
        if not ln or ln[0] == "#":
            continue
        name, _, val = ln.rpartition(":")
        if not _:
            raise ParseError("value line without ':' : %r" % ln)
        if name in out:
            raise ParseError("wire %s assigned twice" % name)
        out[name] = int(val.strip())
    return out


def parse_lc(toks):
    if len(toks) % 2:
        raise ParseError("linear combination with an odd number of tokens: %r" % (toks,))
    return [(int(toks[i]), toks[i + 1]) for i in range(0, len(toks), 2)]


def parse_equation(ln):
    """returns (A, B, C) term lists"""
    toks = ln.split()
    if toks and toks[-1] == ".":
        toks = toks[:-1]
    if toks.count("*") != 1 or toks.count("=") != 1:
        raise ParseError("not an equation: %r" % ln)
    i, j = toks.index("*"), toks.index("=")
    if not i < j:
        raise ParseError("'=' before '*': %r" % ln)
    return parse_lc(toks[:i]), parse_lc(toks[i + 1:j]), parse_lc(toks[j + 1:])


def parse_eqs(text):
    """returns list of items: ('function', fname, call) | ('ioblock', ctx, name, [wires]) | ('external', ...) |
    ('glue', ctx1, bn1, ctx2, bn2) | ('eq', A, B, C, raw)"""
    items = []
    for ln in text.splitlines():
        s = ln.strip()
        if not s or s[0] == "#":
            continue
        toks = s.split()
        if toks[0] == "[function]":
            items.append(("function", toks[1], toks[2]))
        elif toks[0] == "[ioblock]":
            items.append(("ioblock", toks[1], toks[2], toks[3:]))
        elif toks[0] == "[external]":
            items.append(("external",) + tuple(toks[1:]))
        elif toks[0] == "[glue]":
            if len(toks) != 5:
                raise ParseError("glue line with %d tokens" % len(toks))
            items.append(("glue", toks[1], toks[2], toks[3], toks[4]))
        else:
            A, B, C = parse_equation(s)
            items.append(("eq", A, B, C, s))
    return items


def value_of(name, wires, io):
    if name.endswith("/one") or name == "one":
        return 1
    if name in wires:
        return wires[name]
    if name in io:
        return io[name]
    raise KeyError(name)


def eval_lc(lc, wires, io, p=P):
    return sum(c * value_of(v, wires, io) for c, v in lc) % p


def context_of(name):
    ctx, sep, rest = name.partition("/")
    return ctx if sep else None


def eq_contexts(A, B, C):
    return {context_of(v) for lc in (A, B, C) for _, v in lc if context_of(v) is not None}


def normalise_eq(A, B, C):
    """the per-function form: context prefix stripped, printed the way the backend prints it"""
    def side(lc):
        return " ".join("%d %s" % (c, v.partition("/")[2] if "/" in v else v) for c, v in lc)
    return (side(A) + " * " + side(B) + " = " + side(C)).strip()


def canon_line(s):
    """whitespace-insensitive form of an equation / ioblock line from a per-function file"""
    toks = s.split()
    if toks and toks[-1] == ".":
        toks = toks[:-1]
    return " ".join(toks)


def split_reference(items):
    """independent re-implementation of the splitting rule: per call, the set of normalised lines"""
    calls = {}      # call -> fname
    order = []
    sets = {}
    for it in items:
        if it[0] == "function":
            calls[it[2]] = it[1]
            order.append(it[2])
            sets.setdefault(it[2], [])
    for it in items:
        if it[0] == "ioblock":
            sets.setdefault(it[1], []).append(canon_line("[ioblock] " + it[2] + " " + " ".join(w.partition("/")[2] for w in it[3])))
        elif it[0] == "eq":
            ctxs = eq_contexts(it[1], it[2], it[3])
            if len(ctxs) == 1:
                sets.setdefault(next(iter(ctxs)), []).append(canon_line(normalise_eq(it[1], it[2], it[3])))
    return calls, order, sets
