"""Run worker functions in fresh interpreters (one subprocess per job), in parallel, with a watchdog."""
import concurrent.futures
import importlib
import json
import os
import shutil
import subprocess
import sys
import tempfile

from vf import boot


def run_jobs(modname, func, jobs, timeout=600, nproc=None, shims=(), env=None):
    """Each job (json-able dict) is executed as  modname.func(job) -> json-able  in a fresh interpreter.
    Returns list of (job, result or None, error string or None)."""
    nproc = nproc or min(16, os.cpu_count() or 4, max(1, len(jobs)))
    scratch = tempfile.mkdtemp(prefix="vf-")

    def one(ix_job):
        ix, job = ix_job
        wd = os.path.join(scratch, "w%d" % ix)
        os.makedirs(wd)
        outp = os.path.join(wd, "result.json")
        e = boot.child_env(env, shims)
        e.update(job.get("env") or {})       # per-job environment (e.g. another PYTHONHASHSEED)
        # the job travels in a file: one environment string is limited to 128 kB, a thorough-tier job can be larger
        with open(os.path.join(wd, "job.json"), "w") as f:
            json.dump(job, f)
        e["VF_JOB_FILE"] = os.path.join(wd, "job.json")
        e.pop("VF_JOB", None)
        e["VF_OUT"] = outp
        try:
            # job["pyflags"]: interpreter options of the worker (e.g. ["-O"]); children it starts inherit them via boot.pyflags()
            pr = subprocess.run([boot.PY, "-X", "faulthandler"] + list(job.get("pyflags", [])) + ["-m", "vf.shard", modname, func], cwd=wd, env=e,
                                stdout=subprocess.PIPE, stderr=subprocess.PIPE, timeout=timeout)
        except subprocess.TimeoutExpired:
            return job, None, "watchdog: worker exceeded %ds" % timeout
        if pr.returncode != 0 or not os.path.exists(outp):
            return job, None, "worker exit %d: %s" % (pr.returncode, pr.stderr.decode(errors="replace")[-1500:])
        with open(outp) as f:
            return job, json.load(f), None

    try:
        with concurrent.futures.ThreadPoolExecutor(nproc) as ex:
            return list(ex.map(one, enumerate(jobs)))
    finally:
        shutil.rmtree(scratch, ignore_errors=True)


if __name__ == "__main__":
    modname, func = sys.argv[1:3]
    if os.environ.get("VF_JOB_FILE"):
        with open(os.environ["VF_JOB_FILE"]) as f:
            job = json.load(f)
    else:
        job = json.loads(os.environ["VF_JOB"])
    boot.paths()
    cov = None
    if os.environ.get("VF_COVERAGE"):
        # optional: line coverage of the code under test by the workloads (tools/coverage_report.sh); not used by any verdict
        import coverage
        cov = coverage.Coverage(data_file=os.path.join(os.environ["VF_COVERAGE"], "cov.%d" % os.getpid()), include=[os.path.join(boot.REPO, "pysnark", "*")])
        cov.start()
    mod = importlib.import_module(modname)
    res = getattr(mod, func)(job)
    if cov is not None:
        cov.stop()
        cov.save()
    with open(os.environ["VF_OUT"], "w") as f:
        json.dump(res, f)
    sys.stdout.flush()
    os._exit(0)   # skip atexit hooks of the code under test (they belong to C18)
