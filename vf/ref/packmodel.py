"""Reference model of pysnark.pack on plain / reference values (C03, C16)."""
import functools

from vf.ref.model import RInt, RBool, MustRaise


def _secret(x):
    return isinstance(x, (RInt, RBool))


class PackBool:
    def bitlen(self):
        return 1

    def pack(self, val):
        if _secret(val):
            return [val]
        return [int(bool(val))]

    def unpack(self, bits, pos):
        return bits[pos]


class PackIntMod:
    def __init__(self, mod):
        self.mod = mod

    def bitlen(self):
        return (self.mod - 1).bit_length()

    def pack(self, val):
        if _secret(val):
            return val.to_bits(self.bitlen())
        if val < 0 or val >= self.mod:
            raise MustRaise("value out of bounds")
        return [(val >> i) & 1 for i in range(self.bitlen())]

    def unpack(self, bits, pos):
        part = bits[pos:pos + self.bitlen()]
        if part and _secret(part[0]):
            v = sum((b.v if _secret(b) else int(b)) << i for i, b in enumerate(part))      # a field may mix circuit bits and plain 0/1
            if not v < self.mod:
                raise MustRaise("unpacked value %d not below modulus %d" % (v, self.mod))
            return RInt(v)
        return sum((1 << i) * v for i, v in enumerate(part))


class PackList:
    def __init__(self, lst):
        self.lst = lst

    def bitlen(self):
        return sum(i.bitlen() for i in self.lst)

    def pack(self, val):
        return functools.reduce(lambda x, y: x + y, [i.pack(j) for i, j in zip(self.lst, val)])

    def unpack(self, bits, pos):
        out = []
        for i in self.lst:
            out.append(i.unpack(bits, pos))
            pos += i.bitlen()
        return out


class PackRepeat:
    def __init__(self, packer, times):
        self.packer = packer
        self.times = times

    def bitlen(self):
        return self.packer.bitlen() * self.times

    def pack(self, val):
        return functools.reduce(lambda x, y: x + y, map(self.packer.pack, val))

    def unpack(self, bits, pos):
        bl = self.packer.bitlen()
        return [self.packer.unpack(bits, pos + i * bl) for i in range(self.times)]
