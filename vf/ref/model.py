"""Executable sequential reference model for pysnark's value types.

RInt / RBool / RFxp mirror LinComb / LinCombBool / LinCombFxp on *plain* values with the semantics the
properties state (C05: Python integer semantics; C14: exact scaled-integer arithmetic).  Generated source
is executed once against the real API and once against these classes (the "native twin").

Two kinds of signals:
  * MustRaise  – Python itself raises / the asserted relation is false / value is not representable:
                 the API must raise as well (it cannot return "the same value").
  * ctx.flags  – operands are outside the inner domain in which the API is obliged not to raise
                 (DESIGN.md section 6).  The API may raise there; if it returns, the value is still compared.
"""
from fractions import Fraction


class MustRaise(Exception):
    pass


class ModelGap(Exception):
    """the reference cannot (or need not) compute this case; the case is not judged"""


class Ctx:
    bl = 16
    res = 8
    p = None
    flags = []          # reasons why the API is allowed to raise in the current run
    pub = []            # public values published, in order (val(), PubVal*)
    strict = False      # when True, out-of-domain raises OutOfDomain (used by the generator to steer)


ctx = Ctx()


class OutOfDomain(Exception):
    pass


def reset(bl=16, res=8, strict=False, p=None):
    ctx.p = p
    ctx.bl = bl
    ctx.res = res
    ctx.flags = []
    ctx.pub = []
    ctx.strict = strict


def flag(reason):
    if ctx.strict:
        raise OutOfDomain(reason)
    ctx.flags.append(reason)


def inner(v):
    """inner domain |v| <= 2^(bl-1)-1"""
    return abs(v) <= (1 << (ctx.bl - 1)) - 1


def need_inner(*vs):
    for v in vs:
        if not inner(v):
            flag("operand %d outside inner domain for bitlength %d" % (v, ctx.bl))
            return


def need_bits(v, bits=None):
    bits = ctx.bl if bits is None else bits
    if v < 0 or v.bit_length() > bits:
        flag("%d is not a non-negative %d-bit value" % (v, bits))


def need_signed_bits(v):
    if v.bit_length() > ctx.bl:
        flag("%d does not fit %d bits" % (v, ctx.bl))


POISON = type("Poison", (), {"__repr__": lambda s: "POISON"})()


def plain_int(o):
    """integer value of an int-like operand (RInt, RBool, int, bool) or None"""
    if isinstance(o, bool):
        return int(o)
    if isinstance(o, int):
        return o
    if isinstance(o, (RInt, RBool)):
        return o.v
    return None


class RInt:
    kind = "int"

    def __init__(self, v):
        assert isinstance(v, int), v
        self.v = int(v)

    def __repr__(self):
        return "RInt(%d)" % self.v

    def num(self):
        return Fraction(self.v)

    def val(self):
        ctx.pub.append(self.v)
        return self.v

    # --- arithmetic -------------------------------------------------------
    def _o(self, other, allow_bool=True):
        if isinstance(other, RFxp) or isinstance(other, float):
            return None
        if isinstance(other, RBool) and not allow_bool:
            return None
        return plain_int(other)

    def __add__(self, other):
        o = self._o(other)
        if o is None:
            return NotImplemented
        return RInt(self.v + o)
    __radd__ = __add__

    def __sub__(self, other):
        o = self._o(other)
        if o is None:
            return NotImplemented
        return RInt(self.v - o)

    def __rsub__(self, other):
        o = self._o(other)
        if o is None:
            return NotImplemented
        return RInt(o - self.v)

    def __mul__(self, other):
        o = self._o(other)
        if o is None:
            return NotImplemented
        return RInt(self.v * o)
    __rmul__ = __mul__

    def __neg__(self):
        return RInt(-self.v)

    def __pos__(self):
        return self

    @staticmethod
    def _truediv(a, b):
        if b == 0:
            raise MustRaise("division by zero")
        if a % b:
            raise MustRaise("inexact division")
        return RInt(a // b)

    def __truediv__(self, other):
        o = self._o(other, allow_bool=False)
        if o is None:
            return NotImplemented
        return RInt._truediv(self.v, o)

    def __rtruediv__(self, other):
        if not isinstance(other, int):
            return NotImplemented
        return RInt._truediv(other, self.v)

    @staticmethod
    def _divmod(a, b):
        if b == 0:
            raise MustRaise("division by zero")
        if b < 0:
            flag("negative divisor")
        need_bits(b - (a % b) - 1 if b > 0 else 0)
        need_bits(a % b if b > 0 else 0)
        q, r = divmod(a, b)
        return RInt(q), RInt(r)

    def __divmod__(self, other):
        o = self._o(other, allow_bool=False)
        if o is None:
            return NotImplemented
        return RInt._divmod(self.v, o)

    def __rdivmod__(self, other):
        if not isinstance(other, int):
            return NotImplemented
        return RInt._divmod(other, self.v)

    def __floordiv__(self, other):
        r = self.__divmod__(other)
        return r if r is NotImplemented else r[0]

    def __rfloordiv__(self, other):
        r = self.__rdivmod__(other)
        return r if r is NotImplemented else r[0]

    def __mod__(self, other):
        r = self.__divmod__(other)
        return r if r is NotImplemented else r[1]

    def __rmod__(self, other):
        r = self.__rdivmod__(other)
        return r if r is NotImplemented else r[1]

    @staticmethod
    def _pow(b, e, secret_exp):
        if e < 0:
            raise MustRaise("negative exponent")
        if secret_exp:
            need_bits(e)
            if e > 64 or (abs(b) > 1 and abs(b) ** e >= 1 << 200):
                flag("secret exponent too large for the reference")
        if e > 1 << 16 and abs(b) > 1:
            raise ModelGap("exponent too large for the reference")
        r = b ** e
        if secret_exp and r < 0:
            ctx.flags.append("mech:secret-exponent-negative-base")
        if secret_exp and ctx.p is not None and r >= ctx.p // 2:
            ctx.flags.append("huge:secret-exponent power beyond p/2 (only congruence is required)")
        return RInt(r)

    def __pow__(self, other, mod=None):
        if mod is not None:
            raise MustRaise("modulus given")
        if isinstance(other, bool) or isinstance(other, RBool) or isinstance(other, RFxp) or isinstance(other, float):
            if isinstance(other, bool):
                return RInt._pow(self.v, int(other), False)
            return NotImplemented
        if isinstance(other, int):
            return RInt._pow(self.v, other, False)
        if isinstance(other, RInt):
            return RInt._pow(self.v, other.v, True)
        return NotImplemented

    def __rpow__(self, other):
        if not isinstance(other, int):
            return NotImplemented
        return RInt._pow(other, self.v, True)

    def __lshift__(self, other):
        if isinstance(other, RInt):
            k = other.v
            need_bits(k)
            if k < 0:
                raise MustRaise("negative shift count")
            if k > ctx.bl:
                flag("shift count beyond bitlength")
            if k > 1 << 16:
                raise ModelGap("shift count too large for the reference")
            return RInt(self.v << k)
        if isinstance(other, int) and not isinstance(other, RBool):
            if other < 0:
                raise MustRaise("negative shift count")
            return RInt(self.v << other)
        return NotImplemented

    def __rlshift__(self, other):
        if not isinstance(other, int):
            return NotImplemented
        return RInt(other).__lshift__(self)

    def __rshift__(self, other):
        if isinstance(other, RInt):
            k = other.v
            if k < 0:
                raise MustRaise("negative shift count")
            need_bits(k)
            if k >= ctx.bl:
                flag("shift count beyond bitlength")
            if k > 1 << 16:
                raise ModelGap("shift count too large for the reference")
            need_bits((1 << k) - (self.v % (1 << k)) - 1)
            return RInt(self.v >> k)
        if isinstance(other, int):
            if other < 0:
                raise MustRaise("negative shift count")
            need_bits(self.v)
            return RInt(self.v >> other)
        return NotImplemented

    def __rrshift__(self, other):
        if not isinstance(other, int):
            return NotImplemented
        return RInt(other).__rshift__(self)

    def _bitop(self, other, f):
        if isinstance(other, RBool):
            return NotImplemented
        if isinstance(other, RInt):
            need_bits(self.v)
            need_bits(other.v)
            return RInt(f(self.v, other.v))
        if isinstance(other, int):
            return RInt(f(self.v, int(other)))
        return NotImplemented

    def __and__(self, other):
        return self._bitop(other, lambda a, b: a & b)

    def __or__(self, other):
        return self._bitop(other, lambda a, b: a | b)

    def __xor__(self, other):
        return self._bitop(other, lambda a, b: a ^ b)
    __rand__ = __and__
    __ror__ = __or__
    __rxor__ = __xor__

    def __invert__(self):
        need_bits(self.v)
        return RInt((1 << ctx.bl) - 1 - self.v)

    def __abs__(self):
        need_signed_bits(self.v)
        return RInt(abs(self.v))

    # --- comparisons --------------------------------------------------------
    def _cmp(self, other, f, d):
        if isinstance(other, (RFxp, float)):
            return NotImplemented
        o = plain_int(other)
        if o is None:
            return NotImplemented
        dv = d(self.v, o)
        if dv is not None:
            need_signed_bits(dv)
        return RBool(1 if f(self.v, o) else 0)

    def __lt__(self, other):
        return self._cmp(other, lambda a, b: a < b, lambda a, b: b - a - 1)

    def __le__(self, other):
        return self._cmp(other, lambda a, b: a <= b, lambda a, b: b - a)

    def __gt__(self, other):
        return self._cmp(other, lambda a, b: a > b, lambda a, b: a - b - 1)

    def __ge__(self, other):
        return self._cmp(other, lambda a, b: a >= b, lambda a, b: a - b)

    def __eq__(self, other):
        return self._cmp(other, lambda a, b: a == b, lambda a, b: None)

    def __ne__(self, other):
        return self._cmp(other, lambda a, b: a != b, lambda a, b: None)

    __hash__ = None

    def __bool__(self):
        raise MustRaise("bool() on a secret")

    def check_zero(self):
        return RBool(1 if self.v == 0 else 0)

    def check_nonzero(self):
        return RBool(1 if self.v != 0 else 0)

    def check_positive(self, bits=None):
        if self.v.bit_length() > (ctx.bl if bits is None else bits):
            flag("%d does not fit %s bits" % (self.v, ctx.bl if bits is None else bits))
        return RBool(1 if self.v >= 0 else 0)

    # --- assertions -----------------------------------------------------------
    def _assert(self, other, f, d, what):
        if isinstance(other, (RFxp, float)):
            # the relation between an integer and a fixed-point number is the numeric one; the API refuses the combination
            # (it may), it must not accept a false one
            flag("integer assertion with a fixed-point operand: the API may refuse")
            o = other.num() if isinstance(other, RFxp) else other
            if not f(self.v, o):
                raise MustRaise("assert_%s(%d, %s) is false" % (what, self.v, o))
            return
        o = plain_int(other)
        if o is None or isinstance(other, RBool):
            raise TypeError("assert_%s: unsupported operand" % what)
        if not f(self.v, o):
            raise MustRaise("assert_%s(%d, %d) is false" % (what, self.v, o))
        dv = d(self.v, o)
        if dv is not None:
            need_bits(dv)

    def assert_lt(self, other, err=None):
        self._assert(other, lambda a, b: a < b, lambda a, b: b - a - 1, "lt")

    def assert_le(self, other, err=None):
        self._assert(other, lambda a, b: a <= b, lambda a, b: b - a, "le")

    def assert_gt(self, other, err=None):
        self._assert(other, lambda a, b: a > b, lambda a, b: a - b - 1, "gt")

    def assert_ge(self, other, err=None):
        self._assert(other, lambda a, b: a >= b, lambda a, b: a - b, "ge")

    def assert_eq(self, other, err=None):
        self._assert(other, lambda a, b: a == b, lambda a, b: None, "eq")

    def assert_ne(self, other, err=None):
        self._assert(other, lambda a, b: a != b, lambda a, b: None, "ne")

    def assert_zero(self, err=None):
        if self.v != 0:
            raise MustRaise("assert_zero(%d)" % self.v)

    def assert_nonzero(self, err=None):
        if self.v == 0:
            raise MustRaise("assert_nonzero(0)")

    def assert_positive(self, bits=None, err=None):
        b = ctx.bl if bits is None else bits
        if self.v < 0 or self.v.bit_length() > b:
            raise MustRaise("assert_positive(%d, bits=%s)" % (self.v, bits))

    def assert_range(self, lo, hi, err=None):
        lo_, hi_ = plain_int(lo), plain_int(hi)
        if not (lo_ <= self.v < hi_):
            raise MustRaise("assert_range(%d in [%d,%d))" % (self.v, lo_, hi_))
        need_bits(self.v - lo_)
        need_bits(hi_ - self.v)

    def to_bits(self, bits=None):
        b = ctx.bl if bits is None else bits
        if self.v < 0 or self.v.bit_length() > b:
            raise MustRaise("to_bits(%d, bits=%s)" % (self.v, bits))
        return [RBool((self.v >> i) & 1) for i in range(b)]

    @classmethod
    def from_bits(cls, bits):
        return sum([b * (1 << i) for i, b in enumerate(bits)])

    def if_else(self, ifval, elseval):
        return elseval + self * (ifval - elseval)


def _boolish(o):
    """value of a boolean-valued operand, or None"""
    if isinstance(o, RBool):
        return o.v
    if isinstance(o, RInt):
        if o.v in (0, 1):
            return o.v
        raise MustRaise("non-boolean secret used as boolean")
    if isinstance(o, (bool, int)):
        return o
    return None


class RBool:
    kind = "bool"

    def __init__(self, v):
        if isinstance(v, RInt):
            v = v.v
        if v not in (0, 1):
            raise MustRaise("non-boolean value for boolean type")
        self.v = int(v)

    def __repr__(self):
        return "RBool(%d)" % self.v

    def num(self):
        return Fraction(self.v)

    def val(self):
        ctx.pub.append(self.v)
        return self.v

    def _i(self):
        return RInt(self.v)

    def __add__(self, other):
        return self._i() + other
    __radd__ = __add__

    def __sub__(self, other):
        return self._i() - other

    def __rsub__(self, other):
        return other + (-self._i())

    def __mul__(self, other):
        return self._i() * other
    __rmul__ = __mul__

    def __neg__(self):
        return -self._i()

    def __pos__(self):
        return self

    def __abs__(self):
        return abs(self._i())

    def __invert__(self):
        return RBool(1 - self.v)

    def _logic(self, other, f):
        if isinstance(other, (RFxp, float)):
            raise TypeError("boolean operator with fixed-point operand")
        if isinstance(other, (RBool, RInt)):
            o = _boolish(other)
        else:
            if other not in (0, 1, True, False):
                flag("logical operator with non-boolean constant (DESIGN 6.9)")
            o = 1 if other else 0
        return RBool(f(self.v, o))

    def __and__(self, other):
        return self._logic(other, lambda a, b: a & b)

    def __or__(self, other):
        return self._logic(other, lambda a, b: a | b)

    def __xor__(self, other):
        return self._logic(other, lambda a, b: a ^ b)
    __rand__ = __and__

    # the API defines no reflected | and ^ on booleans (TypeError for `1 | b`): raising is allowed, a returned value must be Python's
    def __ror__(self, other):
        flag("reflected | on a boolean: the API may refuse")
        return self.__or__(other)

    def __rxor__(self, other):
        flag("reflected ^ on a boolean: the API may refuse")
        return self.__xor__(other)

    def _cmp(self, other, name):
        if isinstance(other, (RFxp, float)):
            raise TypeError("comparison of boolean with fixed-point")
        if isinstance(other, (RBool, RInt)):
            o = _boolish(other)
        elif isinstance(other, int):
            if other not in (0, 1):
                # Python compares the integers; the library may refuse, but must not return another outcome
                flag("boolean compared with a non-boolean constant")
            o = int(other)
        else:
            raise TypeError
        return getattr(RInt(self.v), name)(RInt(o))

    def __eq__(self, other):
        return self._cmp(other, "__eq__")

    def __ne__(self, other):
        return self._cmp(other, "__ne__")

    def __lt__(self, other):
        return self._cmp(other, "__lt__")

    def __le__(self, other):
        return self._cmp(other, "__le__")

    def __gt__(self, other):
        return self._cmp(other, "__gt__")

    def __ge__(self, other):
        return self._cmp(other, "__ge__")

    __hash__ = None

    def __bool__(self):
        raise MustRaise("bool() on a secret")

    def __pow__(self, other, mod=None):
        e = plain_int(other)
        if e is None:
            raise TypeError
        if e < 0 and self.v == 0:
            raise MustRaise("0 ** negative")
        if e < 0:
            flag("negative exponent on boolean")
            return RBool(1)
        return RBool(self.v ** e)

    def _assert(self, other, name):
        if isinstance(other, (RBool, RInt)):
            o = _boolish(other)
        elif isinstance(other, int) and other in (0, 1):
            o = int(other)
        else:
            raise MustRaise("non-boolean operand")
        getattr(RInt(self.v), name)(RInt(o))

    def assert_eq(self, other, err=None):
        self._assert(other, "assert_eq")

    def assert_ne(self, other, err=None):
        self._assert(other, "assert_ne")

    def assert_lt(self, other, err=None):
        self._assert(other, "assert_lt")

    def assert_le(self, other, err=None):
        self._assert(other, "assert_le")

    def assert_gt(self, other, err=None):
        self._assert(other, "assert_gt")

    def assert_ge(self, other, err=None):
        self._assert(other, "assert_ge")

    def check_positive(self):
        return RBool(1)

    def assert_positive(self):
        pass

    def check_zero(self):
        return RBool(1 - self.v)

    def assert_zero(self):
        if self.v:
            raise MustRaise("assert_zero(1)")

    def assert_nonzero(self):
        if not self.v:
            raise MustRaise("assert_nonzero(0)")

    def if_else(self, ifval, elseval):
        return elseval + self * (ifval - elseval)


def _rep(o):
    """scaled-integer representation of any numeric operand, or None"""
    if isinstance(o, RFxp):
        return o.r
    if isinstance(o, (RInt, RBool)):
        return o.v << ctx.res
    if isinstance(o, bool):
        return int(o) << ctx.res
    if isinstance(o, int):
        return o << ctx.res
    if isinstance(o, float):
        f = Fraction(o) * (1 << ctx.res)
        if f.denominator != 1:
            flag("float not representable at this resolution")
        return int(o * (1 << ctx.res))
    return None


class RFxp:
    kind = "fxp"

    def __init__(self, x, scale=True):
        """RFxp(RInt) converts an integer secret; RFxp(rep, False) wraps a representation"""
        if isinstance(x, RFxp):
            self.r = x.r
        elif isinstance(x, (RInt, RBool)):
            self.r = (x.v << ctx.res) if scale else x.v
        elif isinstance(x, int):
            self.r = (x << ctx.res) if scale else x
        else:
            raise TypeError("RFxp(%r)" % (x,))

    def __repr__(self):
        return "RFxp(%d/2^%d)" % (self.r, ctx.res)

    def num(self):
        return Fraction(self.r, 1 << ctx.res)

    def val(self):
        ctx.pub.append(self.r)
        return float(self.r) / (1 << ctx.res)

    @staticmethod
    def mk(r):
        return RFxp(int(r), False)

    def __add__(self, other):
        o = _rep(other)
        if o is None:
            return NotImplemented
        return RFxp.mk(self.r + o)
    __radd__ = __add__

    def __sub__(self, other):
        o = _rep(other)
        if o is None:
            return NotImplemented
        return RFxp.mk(self.r - o)

    def __rsub__(self, other):
        o = _rep(other)
        if o is None:
            return NotImplemented
        return RFxp.mk(o - self.r)

    def __neg__(self):
        return RFxp.mk(-self.r)

    def __pos__(self):
        return self

    @staticmethod
    def _fdiv(a, b):
        """floor(a/b) on integers through the library's division gadget domain"""
        if b == 0:
            raise MustRaise("division by zero")
        if b < 0:
            flag("negative divisor")
        else:
            need_bits(b - (a % b) - 1)
            need_bits(a % b)
        return a // b

    def __mul__(self, other):
        if isinstance(other, (RInt, RBool)) or (isinstance(other, int)):
            return RFxp.mk(self.r * plain_int(other))
        o = _rep(other)
        if o is None:
            return NotImplemented
        return RFxp.mk(RFxp._fdiv(self.r * o, 1 << ctx.res))
    __rmul__ = __mul__

    def __truediv__(self, other):
        if isinstance(other, int) and not isinstance(other, bool):
            # quotient floor(a*2^r / (k*2^r)) = floor(rep / k)
            return RFxp.mk(RFxp._fdiv(self.r, other))
        o = _rep(other)
        if o is None:
            return NotImplemented
        return RFxp.mk(RFxp._fdiv(self.r << ctx.res, o))

    def __rtruediv__(self, other):
        o = _rep(other)
        if o is None:
            return NotImplemented
        return RFxp.mk(RFxp._fdiv(o << ctx.res, self.r))

    def __divmod__(self, other):
        o = _rep(other)
        if o is None:
            return NotImplemented
        q = RFxp._fdiv(self.r, o)
        return RFxp.mk(q << ctx.res), RFxp.mk(self.r - q * o)

    def __floordiv__(self, other):
        r = self.__divmod__(other)
        return r if r is NotImplemented else r[0]

    def __mod__(self, other):
        r = self.__divmod__(other)
        return r if r is NotImplemented else r[1]

    def __rfloordiv__(self, other):
        o = _rep(other)
        if o is None:
            return NotImplemented
        return RFxp.mk(o).__floordiv__(self)

    def __rmod__(self, other):
        o = _rep(other)
        if o is None:
            return NotImplemented
        return RFxp.mk(o).__mod__(self)

    def __pow__(self, other, mod=None):
        if mod is not None:
            raise MustRaise("modulus")
        if not isinstance(other, int) or isinstance(other, bool):
            return NotImplemented
        if other < 0:
            raise MustRaise("negative exponent")
        if other == 0:
            return RFxp(1)
        if other == 1:
            return self
        r = self * self ** (other - 1)
        if r.r < 0:
            ctx.flags.append("mech:fixed-point power with a negative result is reduced into [0,p) by the library (not in C14's list)")
        return r

    def __lshift__(self, other):
        r = RInt(self.r) << other
        return RFxp.mk(r.v)

    def __rshift__(self, other):
        r = RInt(self.r) >> other
        return RFxp.mk(r.v)

    def __abs__(self):
        need_signed_bits(self.r)
        return RFxp.mk(abs(self.r))

    def _cmp(self, other, name):
        o = _rep(other)
        if o is None:
            return NotImplemented
        return getattr(RInt(self.r), name)(RInt(o))

    def __lt__(self, other):
        return self._cmp(other, "__lt__")

    def __le__(self, other):
        return self._cmp(other, "__le__")

    def __gt__(self, other):
        return self._cmp(other, "__gt__")

    def __ge__(self, other):
        return self._cmp(other, "__ge__")

    def __eq__(self, other):
        return self._cmp(other, "__eq__")

    def __ne__(self, other):
        return self._cmp(other, "__ne__")

    __hash__ = None

    def __bool__(self):
        raise MustRaise("bool() on a secret")

    def _assert(self, other, name):
        o = _rep(other)
        if o is None:
            raise TypeError
        getattr(RInt(self.r), name)(RInt(o))

    def assert_lt(self, other, err=None):
        self._assert(other, "assert_lt")

    def assert_le(self, other, err=None):
        self._assert(other, "assert_le")

    def assert_gt(self, other, err=None):
        self._assert(other, "assert_gt")

    def assert_ge(self, other, err=None):
        self._assert(other, "assert_ge")

    def assert_eq(self, other, err=None):
        self._assert(other, "assert_eq")

    def assert_ne(self, other, err=None):
        self._assert(other, "assert_ne")

    def check_positive(self):
        return RInt(self.r).check_positive()

    def assert_positive(self):
        RInt(self.r).assert_positive()

    def check_zero(self):
        return RInt(self.r).check_zero()

    def check_nonzero(self):
        return RInt(self.r).check_nonzero()

    def assert_zero(self):
        RInt(self.r).assert_zero()

    def assert_nonzero(self):
        RInt(self.r).assert_nonzero()

    def assert_range(self, lo, hi):
        RInt(self.r).assert_range(RInt(_rep(lo)), RInt(_rep(hi)))


# ---- constructors and control flow mirrored from the API ------------------------------------------------

def PrivVal(v):
    if not isinstance(v, int):
        raise MustRaise("wrong type")
    return RInt(v)


def PubVal(v):
    if not isinstance(v, int):
        raise MustRaise("wrong type")
    ctx.pub.append(int(v))
    return RInt(v)


def ConstVal(v):
    return RInt(v)


def PrivValBool(v):
    return RBool(v)


def PubValBool(v):
    r = RBool(v)
    ctx.pub.append(r.v)
    return r


def PrivValFxp(v, doconvert=True):
    if doconvert:
        return RFxp.mk(_rep(v))
    return RFxp.mk(v)


def PubValFxp(v, doconvert=True):
    r = PrivValFxp(v, doconvert)
    ctx.pub.append(r.r)
    return r


def LinCombBool(x, constrain=True):
    if not isinstance(x, RInt):
        raise MustRaise("wrong type for LinCombBool")
    return RBool(x.v)


def LinCombFxp(x, scale=True):
    if not isinstance(x, RInt):
        raise MustRaise("wrong type for LinCombFxp")
    return RFxp(x, scale)


def if_then_else(cond, truev, falsev):
    if truev is falsev:
        return truev
    if isinstance(cond, int):
        if cond not in (0, 1):
            raise MustRaise("non-boolean condition")
        return truev if cond else falsev
    if isinstance(cond, RBool):
        c = cond.v
    else:
        raise MustRaise("wrong type for condition")
    if callable(truev) or callable(falsev):
        if c:
            return truev() if callable(truev) else truev
        return falsev() if callable(falsev) else falsev
    if isinstance(truev, list):
        if isinstance(falsev, (list, tuple)) and len(truev) != len(falsev):
            raise MustRaise("selection between lists of different length")
        return [if_then_else(cond, t, f) for t, f in zip(truev, falsev)]
    if isinstance(truev, RArray) or isinstance(falsev, RArray):
        if not (isinstance(truev, RArray) and isinstance(falsev, RArray)):
            raise MustRaise("array selected against a non-array")
        return RArray([if_then_else(cond, t, f) for t, f in zip(truev.arr, falsev.arr)])
    r = truev if c else falsev
    # result type follows falsev + cond*(truev-falsev)
    kinds = {getattr(truev, "kind", "plain"), getattr(falsev, "kind", "plain")}
    if "fxp" in kinds or isinstance(truev, float) or isinstance(falsev, float):
        return RFxp.mk(_rep(r))
    if isinstance(r, RBool) or isinstance(r, (int, bool)):
        return RInt(plain_int(r))
    return r


def guarded(cond):
    def _g(fn):
        def __g(*a, **k):
            c = cond.v if isinstance(cond, (RBool, RInt)) else cond
            if c not in (0, 1):
                raise MustRaise("incorrect guard value")
            if isinstance(cond, int) and c == 0:
                raise MustRaise("unreachable code")
            if c:
                return fn(*a, **k)
            return POISON
        return __g
    return _g


NAMES = dict(PrivVal=PrivVal, PubVal=PubVal, ConstVal=ConstVal, PrivValBool=PrivValBool, PubValBool=PubValBool,
             PrivValFxp=PrivValFxp, PubValFxp=PubValFxp, LinCombBool=LinCombBool, LinCombFxp=LinCombFxp,
             if_then_else=if_then_else, guarded=guarded, LinComb=RInt)


class RArray:
    kind = "arr"

    def __init__(self, vals):
        self.arr = list(vals.arr) if isinstance(vals, RArray) else list(vals)

    def __repr__(self):
        return "RArray(%r)" % (self.arr,)

    def _ix(self, item):
        if isinstance(item, RInt):
            if item.v < 0 or item.v >= len(self.arr):
                raise MustRaise("index %d out of range(%d)" % (item.v, len(self.arr)))
            return item.v
        if isinstance(item, int):
            if not -len(self.arr) <= item < len(self.arr):
                raise MustRaise("index out of range")
            return item
        raise MustRaise("bad index type")

    def __getitem__(self, item):
        if isinstance(item, tuple) and len(item) == 1:
            item = item[0]
        if isinstance(item, tuple):
            return self[item[0]][item[1:]]
        r = self.arr[self._ix(item)]
        if isinstance(r, RArray) and isinstance(item, RInt):
            return RArrayRow(r)
        return r

    def __setitem__(self, item, value):
        if isinstance(item, tuple) and len(item) == 1:
            item = item[0]
        if isinstance(item, tuple):
            row = self.arr[self._ix(item[0])]
            row = RArray(row)
            row[item[1:]] = value
            self.arr[self._ix(item[0])] = row
            return
        self.arr[self._ix(item)] = value


def _arr_binop(a, b, f):
    if isinstance(b, RArray):
        return RArray([f(x, y) for x, y in zip(a.arr, b.arr)])
    return RArray([f(x, b) for x in a.arr])


RArray.__add__ = lambda self, other: _arr_binop(self, other, lambda x, y: x + y)
RArray.__radd__ = RArray.__add__
RArray.__sub__ = lambda self, other: _arr_binop(self, other, lambda x, y: x - y) if isinstance(other, RArray) else NotImplemented
RArray.__mul__ = lambda self, other: RArray([other * x for x in self.arr]) if isinstance(other, (int, RInt, RBool)) else NotImplemented
RArray.__rmul__ = RArray.__mul__


def _arr_assert_eq(self, other):
    if len(self.arr) != len(other.arr):
        raise MustRaise("arrays not of the same length")
    for l, r in zip(self.arr, other.arr):
        if plain_int(l) != plain_int(r):
            raise MustRaise("arrays differ")


RArray.assert_eq = _arr_assert_eq
RArray.joined = lambda self: [v for ar in self.arr for v in ar.arr]


class RArrayRow(RArray):
    def __init__(self, a):
        self.arr = list(a.arr)

    def __setitem__(self, item, value):
        raise TypeError("cannot set value in a returned row")


def lin_comb(cofs, vals):
    return sum([c * v for c, v in zip(cofs, vals)])


def scalar_mul(a, b):
    return [a * bi for bi in b]


def vector_sub(a, b):
    return [ai - bi for ai, bi in zip(a, b)]


NAMES.update(Array=RArray, lin_comb=lin_comb, scalar_mul=scalar_mul, vector_sub=vector_sub)


def poseidon_hash(inputs):
    """reference sponge under the parameter set registered for the recorder's registry name (toy set for nobackend)"""
    from vf.ref import poseidon as _p
    from pysnark.poseidon_constants import poseidon_constants as pc
    K = pc["nobackend"]
    p = ctx.p or 21888242871839275222246405745257275088548364400416034343698204186575808495617
    if not isinstance(inputs, list) or not all(isinstance(x, (RInt, RBool, RFxp)) for x in inputs):
        raise MustRaise("can only hash lists of secrets")
    vals = [(x.r if isinstance(x, RFxp) else x.v) for x in inputs]
    ctx.flags.append("huge:hash output is a full-size field element")
    return [RInt(v) for v in _p.sponge(vals, p, K["R_F"], K["R_P"], K["t"], K["a"], K["round_constants"], K["matrix"])]


NAMES.update(poseidon_hash=poseidon_hash)


def _aug(a, b, op):
    """plain Python, shared verbatim by the API namespace and the twin: an augmented assignment through a second name.
    Returns [the rebound name, the object that was aliased] - the latter must be what it was before"""
    acc = a
    if op == "+":
        acc += b
    elif op == "-":
        acc -= b
    elif op == "*":
        acc *= b
    elif op == "&":
        acc &= b
    elif op == "|":
        acc |= b
    elif op == "^":
        acc ^= b
    elif op == "<<":
        acc <<= b
    elif op == "//":
        acc //= b
    else:
        raise ValueError(op)
    return [acc, a]


def _loop_sum(n, mx):
    v = n.v if hasattr(n, "v") else int(n)
    if v < 0:
        flag("negative secret loop bound")
    if v > mx:
        raise MustRaise("stop exceeds max")
    return RInt(sum(i + 1 for i in range(v)))


NAMES.update(_loop_sum=_loop_sum)
NAMES.update(_aug=_aug, if_guard=lambda fn: fn, igprint=lambda *a, **k: None)      # unguarded, an if_guard-wrapped function is the function


def snark(fn):
    def wrapped(*args, **kwargs):
        if kwargs:
            raise MustRaise("keyword arguments")

        def conv(x):
            if isinstance(x, (list, tuple)):
                return type(x)(conv(y) for y in x)
            if isinstance(x, dict):
                return {k: conv(v) for k, v in x.items()}
            if isinstance(x, int):
                return PubVal(int(x))
            if isinstance(x, float):
                return PubValFxp(x)
            return x

        def back(x):
            if isinstance(x, (list, tuple)):
                return type(x)(back(y) for y in x)
            if isinstance(x, dict):
                return {k: back(v) for k, v in x.items()}
            return x.val() if isinstance(x, (RInt, RBool, RFxp)) else x
        return back(fn(*[conv(a) for a in args]))
    return wrapped


NAMES.update(snark=snark)


def set_bitlength(n):
    ctx.bl = n


NAMES.update(set_bitlength=set_bitlength)
