"""Plain-integer Poseidon permutation / sponge and subset-sum (GGH) hash, written from the constructions.

Poseidon (Grassi et al.): state of t field elements; R_F/2 full rounds, R_P partial rounds, R_F/2 full rounds; each
round = add round constants, S-box x -> x^a (all lanes in a full round, lane 0 in a partial round), multiply by the MDS
matrix (new[i] = sum_j M[i][j] * state[j]).  Sponge: capacity lane 0, rate lanes 1..t-1, 10* padding, output = rate lanes."""
import hashlib
import struct


def permute(state, p, R_F, R_P, a, rc, M):
    t = len(state)
    state = [x % p for x in state]
    r = 0
    for phase, n in (("full", R_F // 2), ("partial", R_P), ("full", R_F // 2)):
        for _ in range(n):
            state = [(x + c) % p for x, c in zip(state, rc[r])]
            if phase == "full":
                state = [pow(x, a, p) for x in state]
            else:
                state[0] = pow(state[0], a, p)
            state = [sum(M[i][j] * state[j] for j in range(t)) % p for i in range(t)]
            r += 1
    return state


def pad(msg, rate):
    """10* padding to a multiple of `rate` (always at least the 1)"""
    out = list(msg) + [1]
    while len(out) % rate:
        out.append(0)
    return out


def sponge(msg, p, R_F, R_P, t, a, rc, M):
    rate = t - 1
    padded = pad([x % p for x in msg], rate)
    state = [0] * t
    for i in range(0, len(padded), rate):
        for j in range(rate):
            state[1 + j] = (state[1 + j] + padded[i + j]) % p
        state = permute(state, p, R_F, R_P, a, rc, M)
    return state[1:]


def prng(i, p):
    """i-th nothing-up-my-sleeve coefficient: SHA-512 over (i, counter) as two native 64-bit integers, digest read as a
    little-endian integer, truncated to bitlength(p) bits, rejection-sampled below p"""
    mask = 1 << p.bit_length()
    it = 0
    while True:
        v = int.from_bytes(hashlib.sha512(struct.pack("=QQ", i, it)).digest(), "little") % mask
        if v < p:
            return v
        it += 1


def subset_sum(bits, p):
    return sum(b * prng(i, p) for i, b in enumerate(bits)) % p
