"""C14: fixed-point operations equal exact scaled-integer arithmetic (DESIGN.md 4/C14).

Operation-level differential against the Fraction/scaled-integer reference for every operand type pair and order,
plus the composition half on generated programs."""
import itertools
import json
import random

from vf import common, shard, progwork

PROP = "C14"
RULE = ("operation half: one case = one operator with a concrete operand-type pair (fixed-point x {fixed-point, secret int, "
        "secret bool, int, float}, either order), representable operand values, resolution in {0,1,4,8,12}, bitlength 8..40; "
        "non-trivial = the API returned a value that was compared with the reference (a raise is allowed by the statement "
        "and only counted); distinct by (expression, operands, resolution, bitlength); cell = op x type pair x resolution. "
        "composition half: generated programs with fixed-point inputs against their twin")

OPS = ["+", "-", "*", "/", "//", "%", "<", "<=", ">", ">=", "==", "!="]
PAIRS = [("f", "f"), ("f", "i"), ("i", "f"), ("f", "b"), ("b", "f"), ("f", "K"), ("K", "f"), ("f", "c"), ("c", "f")]


def templates():
    out = []
    for op in OPS:
        for a, b in PAIRS:
            cmp_ = op in ("<", "<=", ">", ">=", "==", "!=")
            out.append(("%s|%s%s" % (op, a, b), "b" if cmp_ else "f", "{%s} %s {%s}" % (a, op, b)))
    out += [("neg|f", "f", "-{f}"), ("pos|f", "f", "+{f}"), ("abs|f", "f", "abs({f})"),
            ("val|f", "v", "{f}.val()"), ("conv|i", "f", "LinCombFxp({i})"), ("conv_val|i", "v", "LinCombFxp({i}).val()"),
            ("pub|c", "v", "PubValFxp({c}).val()"), ("priv_noconv", "v", "PrivValFxp({K}, False).val()"),
            ("pub_noconv", "v", "PubValFxp({K}, False).val()"), ("pub_noconv_kw", "f", "PubValFxp({K}, doconvert=False) + {f}"),
            ("priv_noconv_kw", "f", "PrivValFxp({K}, doconvert=False) - {c}"), ("pub_conv_f", "f", "PubValFxp({c}) * {k}"),
            ("ite|bff", "f", "if_then_else({b}, {f}, {f})"), ("ite|bfi", "f", "if_then_else({b}, {f}, {i})"),
            ("ite|bif", "f", "if_then_else({b}, {i}, {f})"), ("ite|bfc", "f", "if_then_else({b}, {f}, {c})"),
            ("divmod|ff", "f", "divmod({f}, {f})[1]"), ("divmod|fK", "f", "divmod({f}, {k})[0]"),
            ("rfloordiv|Kf", "f", "{k} // {f}"), ("rmod|cf", "f", "{c} % {f}"),
            ("lshift|f", "f", "{f} << {s}"), ("rshift|f", "f", "{f} >> {s}"),
            ("check_zero|f", "b", "{f}.check_zero()"), ("check_nonzero|f", "b", "{f}.check_nonzero()"),
            ("check_positive|f", "b", "{f}.check_positive()"),
            ("aug_alias|ff+", "f", "_aug({f}, {f}, '+')[1]"), ("aug_alias|fi-", "f", "_aug({f}, {i}, '-')[1]"),
            ("aug_alias|fc+", "f", "_aug({f}, {c}, '+')[1]"), ("aug_alias|fk*", "f", "_aug({f}, {k}, '*')[1]"),
            ("aug_res|ff+", "f", "_aug({f}, {f}, '+')[0]"), ("aug_res|fb-", "f", "_aug({f}, {b}, '-')[0]"),
            # the same object on both sides
            ("same|div", "f", "(lambda t: t / t)({f})"), ("same|sub", "f", "(lambda t: t - t)({f})"), ("same|mul", "f", "(lambda t: t * t)({f})"),
            ("same|lt", "b", "(lambda t: t < t)({f})"), ("same|eq", "b", "(lambda t: t == t)({f})"), ("same|floordiv", "f", "(lambda t: t // t)({f})"),
            ("same|mod", "f", "(lambda t: t % t)({f})"),
            ("mulchain", "f", "{f} * {f} + {f} * {i} - {c}"), ("divchain", "f", "({f} + {i}) / ({f} * {f} + 1)")]
    return out


def main():
    tier = common.tier()
    items = []
    for tid, rty, tmpl in templates():
        for res in (0, 1, 4, 8, 12):
            items.append(dict(tid=tid, res=res, n=(100 if tier == "quick" else 1500)))
    common.rng(PROP, "plan").shuffle(items)
    nshards = 16 if tier == "quick" else 32
    jobs = [dict(kind="ops", seed="%d/%s/%d" % (common.seed(), PROP, s), items=items[s::nshards]) for s in range(nshards)]
    nprog = (8, 120) if tier == "quick" else (16, 1200)
    for s in range(nprog[0]):
        jobs.append(dict(kind="prog", seed="%d/%s/p%d" % (common.seed(), PROP, s), nprogs=nprog[1], props=[PROP], maxstmts=10,
                         force_fxp=True))
    R = common.Run(PROP, "exploration", RULE)
    for job, res, err in shard.run_jobs("vf.checks.C14", "worker", jobs, timeout=3600, nproc=16):
        if err:
            R.inconc("worker %s: %s" % (job["seed"], err))
            continue
        R.merge(res)
    R.assumptions = ["reference = RFxp in vf/ref/model.py (scaled integers, Python floor semantics)",
                     "only representable floats are generated (DESIGN.md 6.8); fixed-point power is not in the statement's list"]
    return R.finish(require_counters=("values_compared", "variables_compared"))


def worker(job):
    if job["kind"] == "prog":
        return progwork.explore(job)[PROP]
    return ops_worker(job)


def values_for(slot, bl, res, rnd):
    h = (1 << (bl - 1)) - 1
    one = 1 << res
    if slot == "f" or slot == "c":
        reps = [0, 1, -1, one, -one, one + 1, one - 1, 3 * one, -3 * one + 1, rnd.randint(-8 * one, 8 * one), rnd.randint(-8 * one, 8 * one),
                rnd.randint(-h, h), rnd.randint(-int(h ** 0.5), int(h ** 0.5))]
        v = rnd.choice(reps) / one
        return repr(v) if slot == "c" else v
    if slot == "i":
        return rnd.choice([0, 1, -1, 2, 3, -3, 7, rnd.randint(-20, 20), rnd.randint(-int(h ** 0.5), int(h ** 0.5)), (1 << 53) + 1, -((1 << 60) + 3), 3 ** 40])
    if slot == "b":
        return rnd.randint(0, 1)
    if slot == "K":
        return rnd.choice([0, 1, -1, 2, -2, 3, 5, -7, 10, (1 << 53) + 1, -((1 << 60) + 3), 3 ** 40])
    if slot == "k":
        return rnd.choice([1, 2, 3, 5, 8])
    if slot == "s":
        return rnd.randint(0, 4)
    raise KeyError(slot)


def ops_worker(job):
    from vf import boot, recorder, opcases
    from vf.gen import prog as G
    from vf.ref import model
    rt = boot.attach()
    N = boot.Neutral()
    R = common.Run(PROP, "exploration", RULE)
    tm = {t[0]: t for t in templates()}
    moduli = [recorder.BN254, recorder.BLS381, recorder.C25519]
    for item in job["items"]:
        tid, res = item["tid"], item["res"]
        _, rty, tmpl = tm[tid]
        rnd = random.Random("%s/%s/%d" % (job["seed"], tid, res))
        sl = opcases.slots(tmpl)
        for _ in range(item["n"]):
            bl = rnd.choice([b for b in (8, 12, 16, 24, 32, 40) if b > res + 3])
            p = rnd.choice(moduli)
            ins, cs = [], []
            for s in sl:
                v = values_for(s, bl, res, rnd)
                if s in ("f", "i", "b"):
                    ins.append(v)
                else:
                    cs.append(v)
            case = opcases.Case(tid, tmpl, bl, res, ins, cs, rty)
            src = case.pre_src + case.op_src + "\n"
            prog = G.Prog(src, [], bl, res)
            one(R, G, model, N, prog, case, ins, p, tid, bl, res)
    return R.export()


def one(R, G, model, N, prog, case, ins, p, tid, bl, res):
    from fractions import Fraction
    chunks = G.compile_chunks(prog.src)
    ref = G.run_ref(prog, ins, chunks=chunks)
    out = G.run_api(prog, ins, N, modulus=p, chunks=chunks)
    must = isinstance(ref.exc, model.MustRaise)
    key = (case.expr, tuple(ins), res, bl)
    cell = "%s|r%d" % (tid, res)
    det = dict(expr=case.expr, inputs=ins, bl=bl, res=res, p=p, src=prog.src)
    if out.exc is not None:
        R.count("api_raised")
        R.count("api_raised:" + tid.split("|")[0])
        if ref.exc is None and not ref.flags:
            R.count("api_raised_in_domain")
            R.count("api_raised_in_domain:" + tid)
        R.case(nontrivial=False)
        return
    if ref.exc is not None and not must:
        R.count("model_gap_api_returns")
        R.count("model_gap:" + tid)
        R.case(nontrivial=False)
        return
    if must:
        R.case(cell=cell, key=key)
        R.violation("no-raise:" + tid, "%s on %s returned although the reference must raise (%s)" % (case.expr, ins, ref.exc), **det)
        return
    api = out.ns["r"]
    r = ref.ns["r"]
    if isinstance(api, float) or isinstance(r, float):
        same = (api == r)
        a_s, r_s = api, r
    else:
        kind, num = progwork.api_number(api, res)
        if kind is None:
            R.count("uncomparable_result")
            return
        rnum = r.num()
        a_s, r_s = str(num), str(rnum)
        half = p // 2
        a, b = num * (1 << res), rnum * (1 << res)
        same = (a == b) if abs(b) < half else (a.denominator == 1 and b.denominator == 1 and (int(a) - int(b)) % p == 0)
        if same and kind != r.kind and not (kind == "int" and r.kind == "bool"):
            same = False
            a_s += " (%s)" % kind
            r_s += " (%s)" % r.kind
    R.count("values_compared")
    R.case(cell=cell, key=key)
    R.sample(dict(expr=case.expr, inputs=ins, res=res, bl=bl, api=a_s, reference=r_s), cap=6)
    if not same:
        if any("not in C14's list" in f for f in ref.flags):
            R.count("outside_statement_list")
            return
        R.violation(classify(tid, case), "%s on %s at resolution %d: API %s, reference %s" % (case.expr, ins, res, a_s, r_s), **det)


def classify(tid, case):
    return "value-differs:" + tid


def replay(path):
    d = json.load(open(path))
    det = d["detail"]
    if "expr" not in det:
        from vf.checks import progbase
        return progbase.replay(PROP, path)
    from vf import boot
    boot.attach()
    from vf.gen import prog as G
    N = boot.Neutral()
    prog = G.Prog(det["src"], [], det["bl"], det["res"])
    out = G.run_api(prog, det["inputs"], N, modulus=int(det["p"]))
    ref = G.run_ref(prog, det["inputs"])
    print(det["src"], det["inputs"], "API:", repr(out.exc) if out.exc else out.ns.get("r"), "model:", repr(ref.exc) if ref.exc else ref.ns.get("r"), ref.flags)
    return 0
