"""C05: traced integer/boolean arithmetic agrees with Python semantics, or raises (DESIGN.md 4/C05).

Operation-level differential: every operator template x operand kinds is executed on the real API and on the
reference model (plain Python integers) over exhaustive operand windows for small bitlengths and sampled operands
for large ones; plus the composition half (generated programs against their native twin)."""
import itertools
import json
import random

from vf import common, shard, progwork

PROP = "C05"
RULE = ("operation half: one case = one operator template with concrete operands (exhaustive window [-2^bl-2, 2^bl+2] per "
        "secret operand for bl in {2,3,4}, sampled for bl 6..32) run on the API and on the plain-integer model; non-trivial = "
        "both sides produced a verdict (value or raise) that was compared; distinct by (template, constants, operands, bl); "
        "cell = template x bitlength x outcome class. composition half: see vf.progwork")


def templates():
    from vf.gen import prog as G
    out = []
    for tid, rty, tmpl in G.INT_T + G.BOOL_T:
        if rty is None:
            continue
        out.append((tid, rty, tmpl))
    out += [("assert_lt", None, "{i}.assert_lt({i})"), ("assert_le", None, "{i}.assert_le({i})"),
            ("assert_eq", None, "{i}.assert_eq({K})"), ("assert_ne", None, "{i}.assert_ne({i})"),
            ("assert_positive", None, "{i}.assert_positive()"), ("assert_nonzero", None, "{i}.assert_nonzero()"),
            ("rdivmod", "i", "divmod({K}, {i})[1]"), ("rsub_b", "i", "{i} - {b}"), ("pow_bs", "b", "{b} ** {i}"),
            ("shift_neg_r", "i", "{i} >> {n}"), ("shift_neg_l", "i", "{i} << {n}"), ("pow_neg", "i", "{i} ** {n}"),
            ("truediv_zero", "i", "{i} / {Z}"), ("floordiv_zero", "i", "{i} // {Z}"), ("mod_zero", "i", "{i} % {Z}")]
    return out


def main():
    tier = common.tier()
    items = []
    for tid, rty, tmpl in templates():
        for bl in (2, 3, 4):
            items.append(dict(tid=tid, bl=bl, n=(500 if tier == "quick" else 12000), exhaustive=tier != "quick"))
        for bl in (6, 8, 16, 32):
            items.append(dict(tid=tid, bl=bl, n=(150 if tier == "quick" else 4000), exhaustive=False))
    common.rng(PROP, "plan").shuffle(items)
    nshards = 16 if tier == "quick" else 32
    jobs = [dict(kind="ops", seed="%d/%s/%d" % (common.seed(), PROP, s), items=items[s::nshards]) for s in range(nshards)]
    nprog = (8, 120) if tier == "quick" else (16, 1500)
    for s in range(nprog[0]):
        jobs.append(dict(kind="prog", seed="%d/%s/p%d" % (common.seed(), PROP, s), nprogs=nprog[1], props=[PROP], maxstmts=10))
    R = common.Run(PROP, "exploration", RULE)
    for job, res, err in shard.run_jobs("vf.checks.C05", "worker", jobs, timeout=3600, nproc=16):
        if err:
            R.inconc("worker %s: %s" % (job["seed"], err))
            continue
        R.merge(res)
    # operand classes the library was not written for (floats, Fraction, Decimal, True / False next to integer secrets): where an
    # operator accepts one, its result is compared with Python's on the plain values
    fam = [dict(seed="%d/C05/foreign/%d" % (common.seed(), s), props=[PROP], n=3000) for s in range(2 if tier == "quick" else 8)]
    for job, res, err in shard.run_jobs("vf.progwork", "foreign_operands", fam, timeout=1800):
        if err:
            R.inconc("foreign-operand family: %s" % err[-300:])
        else:
            R.merge(res[PROP])
    R.assumptions = ["reference = vf/ref/model.py; DESIGN.md section 6 records where the property is read narrowly "
                     "(negative divisors, huge results congruent mod p, ~ within bitlength, boolean operators with boolean constants only)"]
    return R.finish(require_counters=("values_compared", "both_raise", "variables_compared"))


def worker(job):
    if job["kind"] == "prog":
        return progwork.explore(job)[PROP]
    return ops_worker(job)


def const_values(slot, bl, rnd):
    from vf import opcases
    if slot == "n":
        return [-1, -2, -bl]
    if slot == "Z":
        return [0]
    if slot == "e":
        return [0, 1, 2, 3, 500, 501]      # large public exponents (the integer-power gadget recurses once per unit)
    return opcases.const_values(slot, bl, 0, rnd)


def ops_worker(job):
    from vf import boot, recorder, opcases
    from vf.gen import prog as G
    from vf.ref import model
    rt = boot.attach()
    N = boot.Neutral()
    R = common.Run(PROP, "exploration", RULE)
    tm = {t[0]: t for t in templates()}
    moduli = [recorder.BN254, recorder.BLS381, recorder.C25519]
    for item in job["items"]:
        tid, bl = item["tid"], item["bl"]
        _, rty, tmpl = tm[tid]
        rnd = random.Random("%s/%s/%d" % (job["seed"], tid, bl))
        sl = opcases.slots(tmpl)
        cslots = [s for s in sl if s not in ("i", "b")]
        islots = [s for s in sl if s in ("i", "b")]
        p = rnd.choice(moduli)
        cdoms = [const_values(s, bl, rnd) for s in cslots]
        const_combos = list(itertools.product(*cdoms)) if cdoms else [()]
        if len(const_combos) > 6:
            const_combos = rnd.sample(const_combos, 6)
        per = max(1, item["n"] // len(const_combos))
        for consts in const_combos:
            case = opcases.Case(tid, tmpl, bl, 0, [0] * len(islots), list(consts), rty)
            src = case.pre_src + case.op_src + "\n"
            chunks = G.compile_chunks(src)
            prog = G.Prog(src, [], bl, 0)
            doms = [((opcases.int_window(bl) if bl <= 6 else None) if s == "i" else [0, 1]) for s in islots]
            total = 1
            for d in doms:
                total *= len(d) if d is not None else 10 ** 9
            if item["exhaustive"] and total <= per:
                vectors = itertools.product(*doms)
                R.count("windows_enumerated_exhaustively")
            else:
                def gen():
                    for _ in range(per):
                        v = [(rnd.choice(opcases.int_classes(bl, rnd)) if s == "i" else rnd.randint(0, 1)) for s in islots]
                        if rnd.random() < 0.08 and "i" in islots:
                            # operands that wrap around the field: equal / small in the field, far apart as integers
                            ii = [j for j, s in enumerate(islots) if s == "i"]
                            j = rnd.choice(ii)
                            base = v[rnd.choice(ii)] if rnd.random() < 0.6 else rnd.randint(-3, 3)
                            v[j] = base + rnd.choice([1, -1, 2, -3]) * p
                            R.count("field_wrapping_operand_vectors")
                        yield tuple(v)
                vectors = gen()
            for ins in vectors:
                one(R, G, model, N, prog, chunks, case, list(ins), p, tid, bl)
    return R.export()


def one(R, G, model, N, prog, chunks, case, ins, p, tid, bl):
    ref = G.run_ref(prog, ins, chunks=chunks, p=p)
    out = G.run_api(prog, ins, N, modulus=p, chunks=chunks)
    must = isinstance(ref.exc, model.MustRaise)
    key = (tid, case.expr, tuple(ins), bl)
    det = dict(expr=case.expr, inputs=ins, bl=bl, p=p, src=prog.src)
    if ref.exc is not None and not must:
        # the model does not express this combination (TypeError etc.)
        if out.exc is None:
            R.count("model_gap_api_returns")
        else:
            R.count("both_reject_types")
        R.case(nontrivial=False)
        return
    if must:
        if out.exc is not None:
            R.count("both_raise")
            R.case(cell="%s|bl%d|raise" % (tid, bl), key=key)
        else:
            R.case(cell="%s|bl%d|raise" % (tid, bl), key=key)
            R.violation(classify_noraise(tid, case, ref), "%s on %s returned although Python raises / the relation is false (%s)" % (
                case.expr, ins, ref.exc), **det)
        return
    if out.exc is not None:
        if ref.flags or any(isinstance(v, int) and abs(v) > p // 4 for v in ins):
            # outside the documented domain (a value that does not fit any bitlength is far outside it): raising is allowed
            R.count("raised_outside_inner_domain")
            R.case(cell="%s|bl%d|outside" % (tid, bl), key=key)
        else:
            R.case(cell="%s|bl%d|value" % (tid, bl), key=key)
            R.violation("raised-in-domain:" + tid, "%s on %s raised %s: %s inside the documented domain" % (
                case.expr, ins, type(out.exc).__name__, str(out.exc)[:100]), **det)
        return
    if "r" not in ref.ns:
        R.count("assertions_accepted_by_both")
        R.case(cell="%s|bl%d|accept" % (tid, bl), key=key)
        return
    kind, num = progwork.api_number(out.ns["r"], 0)
    r = ref.ns["r"]
    if kind is None:
        if isinstance(out.ns["r"], int) and hasattr(r, "v"):
            num = out.ns["r"]       # plain python result (e.g. x >> bitlength gives the int 0)
        else:
            R.count("uncomparable_result")
            return
    R.count("values_compared")
    rv = r.v if hasattr(r, "v") else r
    half = p // 2
    same = (num == rv) if abs(rv) < half else ((int(num) - rv) % p == 0)
    R.case(cell="%s|bl%d|%s" % (tid, bl, "value" if not ref.flags else "value-outside"), key=key)
    R.sample(dict(expr=case.expr, inputs=ins, bl=bl, api=int(num), python=rv), cap=6)
    if not same:
        R.violation(classify_value(tid, case, ins, ref, int(num), rv, p), "%s on %s: API %s, Python %s" % (case.expr, ins, num, rv), **det)


def classify_value(tid, case, ins, ref, api, py, p):
    if tid in ("bpow", "pow_bs"):
        return "bool-pow-ignores-exponent"
    if tid == "pow_ss" and ins[0] < 0 and (api - py) % p == 0:
        return "secret-exponent-negative-base-reduced-mod-p"
    return "value-differs:" + tid


def classify_noraise(tid, case, ref):
    if tid in ("bpow", "pow_bs"):
        return "bool-pow-ignores-exponent"
    return "no-raise:" + tid


def replay(path):
    d = json.load(open(path))
    det = d["detail"]
    if "expr" not in det:
        from vf.checks import progbase
        return progbase.replay(PROP, path)
    from vf import boot
    boot.attach()
    from vf.gen import prog as G
    N = boot.Neutral()
    prog = G.Prog(det["src"], [], det["bl"], 0)
    out = G.run_api(prog, det["inputs"], N, modulus=int(det["p"]))
    ref = G.run_ref(prog, det["inputs"])
    print(det["src"], det["inputs"], "API:", repr(out.exc) if out.exc else out.ns.get("r"), "model:", repr(ref.exc) if ref.exc else ref.ns.get("r"), ref.flags)
    return 0
