"""C20: hash gadgets equal a plain reference and use the active backend's parameters (DESIGN.md 4/C20).

Arithmetic half: the recording backend is registered under each zkinterface registry name with the matching field (and
as nobackend for the toy set); traced permutation / sponge / subset-sum are compared with vf/ref/poseidon.py, the two
published vectors, constraint evaluation, constant constraint counts and canonical traces across values; the padded
message is observed at the permute() boundary and must be injective over inputs of different length.
Selection half: one fresh interpreter per way the backend can have been selected."""
import hashlib
import json
import os
import random
import shutil
import subprocess
import tempfile

from vf import common, shard, boot

PROP = "C20"
FIELDS = {
    "zkinterface": 21888242871839275222246405745257275088548364400416034343698204186575808495617,
    "zkifbellman": 52435875175126190479447740508185965837690552500527637822603658699938581184513,
    "zkifbulletproofs": 7237005577332262213973186563042994240857116359379907606001950938285454250989,
    "nobackend": 21888242871839275222246405745257275088548364400416034343698204186575808495617,
}
REGNAME = {"zkinterface": "pysnark.zkinterface.backend", "zkifbellman": "pysnark.zkinterface.backendbellman",
           "zkifbulletproofs": "pysnark.zkinterface.backendbulletproofs", "nobackend": "pysnark.nobackend"}
VECTORS = {
    "zkinterface": [0x299c867db6c1fdd79dcefa40e4510b9837e60ebb1ce0663dbaa525df65250465, 0x1148aaef609aa338b27dafd89bb98862d8bb2b429aceac47d86206154ffe053d,
                    0x24febb87fed7462e23f6665ff9a0111f4044c38ee1672c1ac6b0637d34f24907, 0x0eb08f6d809668a981c186beaf6110060707059576406b248e5d9cf6e78b3d3e,
                    0x07748bc6877c9b82c8b98666ee9d0626ec7f5be4205f79ee8528ef1c4a376fc7],
    "zkifbellman": [0x2a918b9c9f9bd7bb509331c81e297b5707f6fc7393dcee1b13901a0b22202e18, 0x65ebf8671739eeb11fb217f2d5c5bf4a0c3f210e3f3cd3b08b5db75675d797f7,
                    0x2cc176fc26bc70737a696a9dfd1b636ce360ee76926d182390cdb7459cf585ce, 0x4dc4e29d283afd2a491fe6aef122b9a968e74eff05341f3cc23fda1781dcb566,
                    0x03ff622da276830b9451b88b85e6184fd6ae15c8ab3ee25a5667be8592cce3b1],
}
RULE = ("arithmetic half: one case = one traced permutation / sponge (message length 0..3(t-1)+1, entries 0, 1, p-1, random, boolean- and "
        "fixed-point-typed) / subset-sum (0..40 bits) under one parameter set (toy, bn254, bls12-381, curve25519) compared with the "
        "plain reference; selection half: one case = one interpreter per (PYSNARK_BACKEND value, pre-imported module) reporting the "
        "parameter set in use; non-trivial = outputs compared / parameter set judged; distinct by (config, input) or configuration; "
        "cell = config x gadget x length class, or selection path")


def main():
    tier = common.tier()
    n = 14 if tier == "quick" else 150
    jobs = [dict(kind="arith", seed="%d/%s/%s/%d" % (common.seed(), PROP, be, s), backend=be, n=n)
            for be in FIELDS for s in range(1 if tier == "quick" else 4)]
    jobs.append(dict(kind="select", seed="%d/%s/sel" % (common.seed(), PROP)))
    for sp in ([10000, 257, 65537] if tier == "quick" else [10000, 257, 65537, 1031, 8191, 131071, 10007]):
        jobs.append(dict(kind="smallfield", seed="%d/%s/small/%d" % (common.seed(), PROP, sp), p=sp, ncoef=20000 if tier == "quick" else 60000, nmsg=6 if tier == "quick" else 40))
    R = common.Run(PROP, "exploration", RULE)
    for job, res, err in shard.run_jobs("vf.checks.C20", "worker", jobs, timeout=3600, nproc=16, shims=("flatbuffers",)):
        if err:
            R.inconc("worker %s: %s" % (job.get("seed"), err))
            continue
        R.merge(res)
    from vf import lazyimport
    lazyimport.run_family(R, ['hash'], label="C20")
    R.assumptions = ["the reference uses the parameter tables of pysnark/poseidon_constants.py; the two published vectors (x5_254_5, x5_255_5 on [0,1,2,3,4]) "
                     "tie those tables to the published instances for bn254 and bls12-381; no published vector is available here for the 25519 set"]
    req = ["sponge_outputs_compared", "permutation_outputs_compared", "published_vectors_checked", "subset_sum_compared", "padded_forms_observed",
           "selection_paths_judged", "constraint_counts_compared"] + ["sponge_outputs_compared:" + be for be in FIELDS]
    return R.finish(require_counters=req)


def worker(job):
    if job["kind"] == "smallfield":
        return smallfield_worker(job)
    return select_worker(job) if job["kind"] == "select" else arith_worker(job)


def smallfield_worker(job):
    """The subset-sum hash over a small field (the toy backend's modulus 10000, small primes): here the rejection sampling of the
    coefficients actually rejects, and hits every boundary (a draw equal to the modulus, one below, one above) within a few hundred
    positions - on the 254-bit fields no run ever would.  Long messages, coefficient by coefficient."""
    from vf.ref import poseidon as ref
    p = job["p"]
    rt = boot.attach("pysnark.nobackend", modulus=p)
    from vf import recorder
    import pysnark.ggh_hash as gh
    from pysnark.runtime import PrivVal
    from pysnark.boolean import PrivValBool
    R = common.Run(PROP, "exploration", RULE)
    N = boot.Neutral()
    rnd = random.Random(job["seed"])
    if gh.PRIME != p:
        R.violation("subset-sum-wrong-field", "ggh_hash works modulo %d, backend field is %d" % (gh.PRIME, p), backend="nobackend")
        return R.export()
    rejected = 0
    for i in range(job["ncoef"]):
        got = gh.SHA512_prng(i)
        want = ref.prng(i, p)
        R.count("small_field_coefficients_compared")
        it0 = int.from_bytes(__import__("hashlib").sha512(__import__("struct").pack("=QQ", i, 0)).digest(), "little") % (1 << p.bit_length())
        rejected += it0 >= p
        if it0 == p:
            R.count("small_field_first_draw_equal_to_modulus")
        if got != want or not 0 <= got < p:
            R.case(cell="small-field|p%d|coefficient" % p, key=("coef", p, i))
            R.violation("subset-sum-coefficient-differs", "coefficient %d over the field of %d elements is %d, reference %d" % (i, p, got, want), backend="nobackend", p=p, index=i)
            break
    R.count("small_field_first_draws_rejected", rejected)
    R.case(cell="small-field|p%d|coefficient" % p, key=("coefs", p, job["ncoef"]), nontrivial=rejected > 0)
    for n in range(job["nmsg"]):
        N(modulus=p)
        L = rnd.choice([64, 512, 2048, job["ncoef"]])
        bits = [rnd.randint(0, 1) for _ in range(L)]
        want = ref.subset_sum(bits, p)
        R.count("subset_sum_compared")
        R.case(cell="small-field|p%d|len%d" % (p, L), key=("ggh", p, tuple(bits)))
        if gh.ggh_hash(bits) != want:
            R.violation("subset-sum-differs", "plain subset-sum hash of a %d-bit message over the field of %d elements differs from the reference" % (L, p), backend="nobackend", p=p, bits=bits)
        if L <= 512:
            sec = gh.ggh_hash([PrivValBool(b) if k % 2 else PrivVal(b) for k, b in enumerate(bits)])
            if sec.value % p != want or (sec.value - recorder.ev(sec.lc)) % p:
                R.violation("subset-sum-differs", "traced subset-sum hash %s, reference %s (field of %d elements)" % (sec.value % p, want, p), backend="nobackend", p=p, bits=bits)
    return R.export()


def arith_worker(job):
    from vf import r1cs as ev
    from vf.ref import poseidon as ref
    be = job["backend"]
    p = FIELDS[be]
    rt = boot.attach(REGNAME[be], modulus=p, env_backend=(be if be != "nobackend" else None))
    from vf import recorder
    import pysnark.poseidon_hash as ph
    import pysnark.ggh_hash as gh
    from pysnark.runtime import PrivVal, PubVal
    from pysnark.boolean import PrivValBool
    from pysnark.fixedpoint import PrivValFxp
    from pysnark.poseidon_constants import poseidon_constants as pc
    R = common.Run(PROP, "exploration", RULE)
    N = boot.Neutral()
    K = pc[be]
    if rt.backend_name != be:
        R.inconc("recorder registered as %s but runtime reports %s" % (be, rt.backend_name))
        return R.export()
    used = dict(R_F=ph.R_F, R_P=ph.R_P, t=ph.t, a=ph.a, rc=ph.round_constants, M=ph.matrix)
    if (used["R_F"], used["R_P"], used["t"], used["a"]) != (K["R_F"], K["R_P"], K["t"], K["a"]) or used["rc"] != K["round_constants"] or used["M"] != K["matrix"]:
        R.violation("wrong-parameter-set", "poseidon_hash uses R_F=%s R_P=%s a=%s for backend %s, registered R_F=%s R_P=%s a=%s" % (
            ph.R_F, ph.R_P, ph.a, be, K["R_F"], K["R_P"], K["a"]), backend=be)
    par = (p, K["R_F"], K["R_P"], K["a"], K["round_constants"], K["matrix"])
    t = K["t"]
    rnd = random.Random(job["seed"])
    # observe the padded message at the permute() boundary
    calls = []
    orig_permute = ph.permute

    def spy(state):
        calls.append([x.value % p for x in state])
        out = orig_permute(state)
        calls.append([x.value % p for x in out])
        return out
    ph.permute = spy

    def val(x):
        return rnd.choice([0, 1, p - 1, 2, rnd.randrange(p), rnd.randrange(p), rnd.randrange(1 << 64)]) if x is None else x

    # published vectors
    if be in VECTORS:
        N(modulus=p)
        out = orig_permute([PrivVal(i) for i in range(5)])
        got = [x.value % p for x in out]
        R.count("published_vectors_checked")
        R.case(cell="%s|published-vector" % be, key=(be, "vector"))
        if got != VECTORS[be] or ref.permute(list(range(5)), *par) != VECTORS[be]:
            R.violation("published-vector-differs", "permutation of [0,1,2,3,4] under %s: traced %s.., reference %s.., published %s.." % (
                be, hex(got[0])[:14], hex(ref.permute(list(range(5)), *par)[0])[:14], hex(VECTORS[be][0])[:14]), backend=be)
    # permutation on random states
    counts = set()
    for n in range(max(4, job["n"] // 3)):
        N(modulus=p)
        st = [val(None) for _ in range(t)]
        out = orig_permute([PrivVal(v) for v in st])
        got = [x.value % p for x in out]
        want = ref.permute(st, *par)
        R.count("permutation_outputs_compared")
        R.case(cell="%s|permute" % be, key=(be, "perm", tuple(st)))
        snap = recorder.snapshot()
        counts.add(len(snap["constraints"]))
        if got != want:
            R.violation("permutation-differs", "traced permutation differs from the reference on %s" % (st[:2],), backend=be, state=st)
        if ev.unsatisfied(snap["constraints"], snap["values"], p):
            R.violation("unsatisfied-constraint", "permutation leaves an unsatisfied constraint", backend=be, state=st)
        bad = [i for i, x in enumerate(out) if (x.value - recorder.ev(x.lc)) % p]
        if bad:
            R.violation("value-wire-mismatch", "permutation output %d: reported value differs from its wire expression" % bad[0], backend=be)
    R.count("constraint_counts_compared", len(counts))
    if len(counts) > 1:
        R.violation("constraint-count-depends-on-values", "permutation emitted %s constraints for different inputs" % sorted(counts), backend=be)
    # sponge: lengths 0 .. 3(t-1)+1, collision-prone families, typed entries
    padded_seen = {}
    traces = {}
    lengths = list(range(0, 3 * (t - 1) + 2))
    base_msgs = []
    for L in lengths:
        base_msgs.append([val(None) for _ in range(L)])
    m = [val(None) for _ in range(rnd.randint(0, t))]
    base_msgs += [m, m + [0], m + [1], m + [1, 0], m + [0, 0], m + [1] + [0] * (t - 2), [0] * (t - 1), [0] * (t - 2), [1], [], [1, 0], [1, 0, 0, 0]]
    for _ in range(job["n"]):
        base_msgs.append([val(None) for _ in range(rnd.choice(lengths))])
    for msg in base_msgs:
        N(modulus=p, resolution=4)
        typed = rnd.random() < 0.25
        ins = []
        mvals = []
        for v in msg:
            k = rnd.random()
            if typed and v in (0, 1) and k < 0.5:
                ins.append(PrivValBool(v))
                mvals.append(v)
            elif typed and k < 0.3:
                r = rnd.randint(-50, 50)
                ins.append(PrivValFxp(r / 16.0))
                mvals.append(r % p)
            else:
                ins.append(PrivVal(v) if rnd.random() < 0.8 else PubVal(v))
                mvals.append(v % p)
        del calls[:]
        nin = len(ins)
        try:
            out = ph.poseidon_hash(ins)
            got = [x.value % p for x in out]
        except Exception as e:  # noqa - a list of secret values of whatever classes is a valid message
            R.case(cell="%s|sponge|raised" % be, key=(be, "sponge", tuple(mvals)))
            R.violation("sponge-raises:" + type(e).__name__, "poseidon_hash raised %s: %s on a message of %d secret values of classes %s" % (
                type(e).__name__, str(e)[:100], len(ins), sorted(set(type(x).__name__ for x in ins))), backend=be, message=mvals)
            continue
        if len(ins) != nin:
            R.violation("hash-mutates-its-input", "poseidon_hash changed the caller's list: %d -> %d items" % (nin, len(ins)), backend=be, message=mvals)

        want = ref.sponge(mvals, p, K["R_F"], K["R_P"], t, K["a"], K["round_constants"], K["matrix"])
        R.count("sponge_outputs_compared")
        R.count("sponge_outputs_compared:" + be)
        lcls = "len%%rate=%d" % (len(msg) % (t - 1)) + ("|blocks%d" % (len(msg) // (t - 1)))
        R.case(cell="%s|sponge|%s%s" % (be, lcls, "|typed" if typed else ""), key=(be, "sponge", tuple(mvals)))
        R.sample(dict(backend=be, message_length=len(msg), output0=hex(got[0])[:18], constraints=len(recorder.constraints)), cap=4)
        if got != want or len(got) != t - 1:
            R.violation("sponge-differs", "traced sponge differs from the reference on a message of length %d" % len(msg), backend=be, message=mvals)
        snap = recorder.snapshot()
        if ev.unsatisfied(snap["constraints"], snap["values"], p):
            R.violation("unsatisfied-constraint", "sponge leaves an unsatisfied constraint", backend=be, message=mvals)
        # padded form: block i = state handed to permute minus previous output (rate lanes)
        padded = []
        prev = [0] * t
        capacity_ok = True
        for i in range(0, len(calls), 2):
            st_in, st_out = calls[i], calls[i + 1]
            padded.extend((a - b) % p for a, b in zip(st_in[1:], prev[1:]))
            if st_in[0] != prev[0]:
                capacity_ok = False
            prev = st_out
        R.count("padded_forms_observed")
        if not capacity_ok:
            R.violation("capacity-lane-overwritten", "the capacity lane was modified while absorbing", backend=be, message=mvals)
        if padded != ref.pad(mvals, t - 1):
            R.violation("padding-differs", "padded message observed at permute() %s.. is not the 10* padding %s.." % (padded[:6], ref.pad(mvals, t - 1)[:6]), backend=be, message=mvals)
        kp = tuple(padded)
        if kp in padded_seen and padded_seen[kp] != tuple(mvals):
            R.violation("padding-not-injective", "messages %s and %s share one padded form" % (list(padded_seen[kp])[:6], mvals[:6]), backend=be)
        padded_seen[kp] = tuple(mvals)
        if not typed:
            tr = (len(snap["constraints"]), hashlib.sha1(repr(ev.canon_trace(snap)).encode()).hexdigest())
            kinds = tuple(snap["kinds"][1:1 + len(msg)])
            R.count("constraint_counts_compared")
            if (len(msg), kinds) in traces and traces[(len(msg), kinds)] != tr:
                R.violation("trace-depends-on-values", "sponge over %d inputs: constraint system differs between input values (%s vs %s constraints)" % (
                    len(msg), traces[(len(msg), kinds)][0], tr[0]), backend=be)
            traces[(len(msg), kinds)] = tr
        if rnd.random() < 0.2:
            again = [x.value % p for x in ph.poseidon_hash(ins)]
            R.count("repeated_hash_of_same_list")
            if again != got or len(ins) != nin:
                R.violation("hash-mutates-its-input", "hashing the same list object twice gives different digests / changes the list", backend=be, message=mvals)
    # published subset-sum value (examples/hash.py, BN254)
    if p == FIELDS["zkinterface"]:
        pub_bits = [1, 0, 1, 1, 1, 0, 1, 0, 1, 1, 1, 0, 1]
        pub_want = 3815100955245901773194254220410253439371965309251566846530536701111841134788
        N(modulus=p)
        R.count("published_vectors_checked")
        if gh.ggh_hash(pub_bits) != pub_want or ref.subset_sum(pub_bits, p) != pub_want or gh.ggh_hash([PrivVal(b) for b in pub_bits]).value % p != pub_want:
            R.violation("published-vector-differs", "subset-sum hash of the bit string of examples/hash.py differs from the published value", backend=be)
    # subset-sum hash (binds the modulus at import: this interpreter's field)
    if gh.PRIME != p:
        R.violation("subset-sum-wrong-field", "ggh_hash works modulo %d, backend field is %d" % (gh.PRIME, p), backend=be)
    for n in range(max(4, job["n"] // 2)):
        N(modulus=p)
        L = rnd.choice([0, 1, 2, 7, 8, 16, 33, 40])
        bits = [rnd.randint(0, 1) for _ in range(L)]
        nonbit = L > 0 and rnd.random() < 0.2
        if nonbit:
            # entries that are small integers rather than bits (an entry-wise sum of bit strings, a signed digit): the algorithm is
            # the same linear map, plain and traced
            bits = [rnd.choice([0, 1, 2, -1, 3]) for _ in range(L)]
            R.count("subset_sum_over_small_integers")
        plain = gh.ggh_hash(bits)
        want = ref.subset_sum(bits, p)
        R.count("subset_sum_compared")
        R.case(cell="%s|subset-sum|len%d" % (be, L), key=(be, "ggh", tuple(bits)))
        if plain != want:
            R.violation("subset-sum-differs", "plain subset-sum hash differs from the reference", backend=be, bits=bits)
        if L:
            try:
                # secret bits of both types, and lists that mix them with plain bits (constant padding around a secret message):
                # all secret / plain prefix / plain suffix / interleaved
                shape = rnd.choice(["all-secret", "all-secret", "plain-prefix", "plain-suffix", "interleaved"])
                cut = rnd.randint(1, max(1, L - 1))
                def _mk(ix, b):
                    plain_here = ((shape == "plain-prefix" and ix < cut and L > 1) or (shape == "plain-suffix" and ix >= cut) or
                                  (shape == "interleaved" and ix > 0 and rnd.random() < 0.5))
                    if plain_here:
                        return b
                    return PrivValBool(b) if rnd.random() < 0.5 and b in (0, 1) else PrivVal(b)
                R.count("subset_sum_secret_shape:" + shape)
                sec = gh.ggh_hash([_mk(ix, b) for ix, b in enumerate(bits)])
            except Exception as e:  # noqa
                R.violation("subset-sum-raises-on-secret-bits" if shape == "all-secret" else "subset-sum-raises-on-mixed-plain-and-secret-bits",
                            "traced subset-sum hash over %s bits raised %s: %s" % (shape, type(e).__name__, str(e)[:100]), backend=be, bits=bits, shape=shape)
                continue
            if sec.value % p != want or (sec.value - recorder.ev(sec.lc)) % p:
                R.violation("subset-sum-differs", "traced subset-sum hash %s, reference %s" % (sec.value % p, want), backend=be, bits=bits)
            nb = len(recorder.constraints)
            if nb != L:
                R.count("subset_sum_constraints:%d_for_%d_bits" % (nb, L))
    ph.permute = orig_permute
    return R.export()


PROBE = r'''
import json, sys, hashlib
rep = {}
for m in %(pre)r:
    __import__(m)
import pysnark.runtime as rt
rep["name"] = rt.backend_name
rep["modulus"] = rt.backend.get_modulus()
try:
    import pysnark.poseidon_hash as ph
    rep["params"] = [ph.R_F, ph.R_P, ph.t, ph.a, hashlib.sha1(repr((ph.round_constants, ph.matrix)).encode()).hexdigest()]
except BaseException as e:
    rep["error"] = type(e).__name__
rt.autoprove = False
json.dump(rep, open("report.json", "w"))
'''


def select_worker(job):
    from vf.checks import C19
    boot.paths()
    from pysnark.poseidon_constants import poseidon_constants as pc
    R = common.Run(PROP, "exploration", RULE)
    home = os.getcwd()
    digest = {k: [v["R_F"], v["R_P"], v["t"], v["a"], hashlib.sha1(repr((v["round_constants"], v["matrix"])).encode()).hexdigest()] for k, v in pc.items()}
    paths = []
    for env in (None, "zkinterface", "zkifbellman", "zkifbulletproofs", "snarkjs", "nobackend"):
        paths.append(((), env))
    for pre in ("pysnark.zkinterface.backend", "pysnark.zkinterface.backendbellman", "pysnark.zkinterface.backendbulletproofs",
                "pysnark.snarkjsbackend", "pysnark.nobackend"):
        paths.append(((pre,), None))
        paths.append(((pre,), "zkifbellman"))
    for pre, env in paths:
        wd = tempfile.mkdtemp(prefix="c20-", dir=home)
        try:
            extra = {"QAPTOOLS_BIN": os.path.join(wd, "none"), "PYSNARK_KEYDIR": "keys"}
            if env:
                extra["PYSNARK_BACKEND"] = env
            open(os.path.join(wd, "probe.py"), "w").write(PROBE % dict(pre=list(pre)))
            pr = subprocess.run([boot.PY, "probe.py"], cwd=wd, env=boot.child_env(extra, shims=("flatbuffers",)), stdout=subprocess.PIPE,
                                stderr=subprocess.PIPE, timeout=120)
            rep = json.load(open(os.path.join(wd, "report.json"))) if os.path.exists(os.path.join(wd, "report.json")) else None
        finally:
            shutil.rmtree(wd, ignore_errors=True)
        path = "pre=%s|env=%s" % (pre[0].split(".")[-1] if pre else "-", env or "-")
        R.case(cell="select|" + path, key=("select", pre, env))
        det = dict(preimport=list(pre), env=env, report=rep, stderr_tail=pr.stderr.decode(errors="replace")[-300:])
        if rep is None:
            R.violation("selection-probe-crashed", "no report for selection path %s" % path, **det)
            continue
        R.count("selection_paths_judged")
        name = rep["name"]
        R.sample(dict(path=path, selected=name, params=rep.get("params", rep.get("error"))), cap=8)
        # "the backend actually selected" is what the three-stage rule (restated in C19) gives for this configuration and what the
        # field in effect confirms - not merely what the runtime reports as its name
        exp = C19.expected(list(pre), env, dict(flatbuffers=True, qaptools=False, libsnark=False))
        if exp["kind"] == "select" and len(exp["names"]) == 1:
            en = next(iter(exp["names"]))
            if C19.FIELD.get(en) is not None and rep["modulus"] == C19.FIELD[en] and en != name:
                det["selected_by_rule"] = en
                name = en
        if name in digest:
            if rep.get("params") != digest[name]:
                R.violation(classify_sel(name, rep, digest), "backend %s selected (%s) but Poseidon uses %s; the set registered for it is R_F=%d R_P=%d a=%d" % (
                    name, path, rep.get("params", rep.get("error")), digest[name][0], digest[name][1], digest[name][3]), **det)
        else:
            if "params" in rep:
                R.violation(classify_sel(name, rep, digest), "backend %s has no registered Poseidon parameters but the module loaded with R_F=%s R_P=%s a=%s" % (
                    name, rep["params"][0], rep["params"][1], rep["params"][3]), **det)
            elif rep.get("error") != "NotImplementedError":
                R.violation("unsupported-backend-wrong-error", "backend %s unsupported: expected NotImplementedError, got %s" % (name, rep.get("error")), **det)
    return R.export()


def classify_sel(name, rep, digest):
    if rep.get("params") == digest.get("nobackend") and name != "nobackend":
        return "toy-parameters-for-real-backend"
    return "parameters-of-another-backend"


def replay(path):
    print(open(path).read()[:3000])
    return 0
