"""C04: every reported value equals its wire expression on the recorded witness (DESIGN.md 4/C04)."""
from vf.checks import progbase


def main():
    R, code = progbase.run("C04", quick=(16, 90), thorough=(32, 1200), extra={"small_primes": True},
                           require=("objects_judged", "contract_evaluations"))
    return code


def replay(path):
    return progbase.replay("C04", path)
