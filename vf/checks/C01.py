"""C01 completeness: the recorded witness satisfies every emitted constraint (DESIGN.md 4/C01)."""
from vf.checks import progbase


def main():
    R, code = progbase.run("C01", quick=(16, 250), thorough=(32, 6000), extra={"small_primes": True},
                           require=("constraints_evaluated",))
    return code


def replay(path):
    return progbase.replay("C01", path)
