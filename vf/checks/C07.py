"""C07: a false guard makes code inert; a true guard is transparent (DESIGN.md 4/C07).

Differential runs {unguarded, every guard-value combination} x {valid, invalid operands} of the same body, entered
through guarded(), lazy if_then_else branches and the block API, nested up to three deep; monitors: exception log,
constraint evaluation on the recorded witness (C01 evaluator), value comparison, witness-space search of the selected
result (false guard) and of enforcement (true guard, checks off)."""
import itertools
import json
import random

from vf import common, shard

PROP = "C07"
RULE = ("one case = one body (operator / assertion / conversion / array access / short composition) x entry mechanism "
        "(guarded, lazy branch, _if block) x nesting depth 1..3 x guard-value combination x operand class (valid / invalid for "
        "the body); non-trivial = the guarded run emitted >=1 constraint and was compared with its unguarded twin run; "
        "distinct by (source, inputs); cell = body template x mechanism x effective guard x operand class")

MECHS = ("guarded", "lazy", "block", "lazy_else")     # lazy_else: the body is the callable *false* branch (effective guard = not c)
OUTER_MECHS = MECHS + ("elif", "dead_else")   # dead_else: the body is the else of `if e0 / elif <public 1>`: never live        # elif: the body is the second branch of an if/elif chain (effective guard = not e0 and c0)


def bodies():
    from vf.gen import prog as G
    out = []
    for tid, rty, tmpl in G.INT_T + G.BOOL_T + G.FXP_T:
        if tid in ("divmod_ss",):
            continue
        out.append((tid, rty, tmpl))
    for tid, rty, tmpl in G.ASSERT_T:
        if tid.startswith("val_"):
            continue
        out.append((tid, None, tmpl))
    out += [("arr_read", "i", "Array([{i}, {i}, 7])[{i}] + 0"), ("arr_read2", "i", "Array([Array([{i}, 1]), Array([2, {i}])])[{i}, {i}] + 0"),
            ("comp_div_cmp", "b", "({i} // {i}) < {i}"), ("comp_cmp_div", "i", "{i} / (({i} < {i}) + {i})"),
            ("comp_bits", "i", "LinComb.from_bits({i}.to_bits()) % {i}"), ("comp_abs_pow", "i", "abs({i}) ** ({i} & 3)"),
            ("comp_bool", "b", "LinCombBool({i} - {i}) | ({i} > {K})"), ("comp_assert", None, "({i} * {i}).assert_lt({i} + {K})"),
            ("comp_fxp", "f", "({f} / {f}) * {c} - {i}"),
            # an inexact public division followed by operations on the (dummy) quotient
            ("comp_inexact_eq", "b", "(lambda t: ((t / {k}) * {k}) == t)({i})"), ("comp_inexact_ne", "b", "(lambda t: (t / {k}) * {k} != t)({i})"),
            ("comp_inexact_nonzero", None, "(lambda t: ((t / {k}) * {k} - t + 1).assert_nonzero())({i})"),
            ("comp_inexact_div", "i", "(lambda t: {i} / ((t / {k}) * {k} - t + 1))({i})"),
            ("comp_inexact_zero", "b", "(lambda t: ((t / {k}) * {k} - t).check_zero())({i})"),
            # a secret bit combined with a plain secret integer (declared boolean by the operator); public zero divisors
            ("bool_and_int", "b", "{b} & {i}"), ("bool_or_int", "b", "{b} | {i}"), ("bool_xor_int", "b", "{b} ^ {i}"),
            ("bool_eq_int", "b", "{b} == {i}"), ("bool_assert_eq_int", None, "{b}.assert_eq({i})"), ("bool_assert_ne_int", None, "{b}.assert_ne({i})"),
            ("truediv_pub_zero", "i", "{i} / {Z}"), ("floordiv_pub_zero", "i", "{i} // {Z}"), ("mod_pub_zero", "i", "{i} % {Z}"), ("divmod_pub_zero", "i", "divmod({i}, {Z})[1]"),
            ("floordiv_pub_counter", "i", "{i} // ({k} - {k})"), ("ffloordiv_pub_zero", "f", "{f} // {Z}"), ("fmod_pub_tiny", "f", "{f} % 0.0001"),
            ("fdiv_pub_tiny", "f", "{f} / 0.0001"),
            ("if_guard_helper", None, "_ig_pos({i})"), ("if_guard_helper2", None, "_ig_lt({i}, {i})"), ("if_guard_python_check", None, "_ig_py({i})"),
            # a helper that runs an oblivious loop over a secret bound with checkstopmax=True: a bound beyond max is an error in live code only
            ("loop_checkstopmax", "i", "_loop_sum({i}, {k})"), ("loop_checkstopmax_expr", "i", "_loop_sum({i} + {i}, {k}) + {i}"),
            ("comp_inexact_cmp", "b", "({i} / {k}) < {i}"), ("comp_inexact_bits", "i", "LinComb.from_bits(({i} / {k}).to_bits())")]
    return out


def main():
    tier = common.tier()
    items = []
    for tid, rty, tmpl in bodies():
        for mech in OUTER_MECHS:
            items.append(dict(tid=tid, mech=mech, n=(4 if tier == "quick" else 100)))
    common.rng(PROP, "plan").shuffle(items)
    nshards = 16 if tier == "quick" else 32
    jobs = [dict(seed="%d/%s/%d" % (common.seed(), PROP, s), items=items[s::nshards], solver=True) for s in range(nshards)]
    R = common.Run(PROP, "exploration", RULE)
    for job, res, err in shard.run_jobs("vf.checks.C07", "worker", jobs, timeout=3600, nproc=16):
        if err:
            R.inconc("worker %s: %s" % (job["seed"], err))
            continue
        R.merge(res)
    R.assumptions = ["'raises because of the values' is decided differentially: an exception under a false guard is a violation "
                     "unless the same body raises the same exception class unguarded on operands that are valid for it",
                     "solver-based halves (selected value unique; enforcement equal) run at bitlength <= 4"]
    return R.finish(require_counters=("false_guard_runs", "true_guard_runs", "false_guard_invalid_operands_inert",
                                      "selected_unique", "enforcement_compared"))


# helpers that only act in live code, wrapped once at module level (no guard is active there) and called inside the regions; the
# last one is a check written in plain Python, which only if_guard keeps out of dead code
HELPERS = ("_ig_pos = if_guard(lambda v: v.assert_positive(2))\n_ig_lt = if_guard(lambda v, w: v.assert_lt(w))\n"
           "def _pyraise(v):\n    val = v.value if hasattr(v, 'value') else v.v\n    if val > 2 or val < 0:\n        raise ValueError('value %d out of range' % val)\n"
           "_ig_py = if_guard(_pyraise)\n")


def build(tid, rty, tmpl, mech, depth, bl, res, ins, consts, rnd=None):
    """returns (case, pre_src, unguarded_src, guarded_src).  Conditions c0 (outermost) .. c{depth-1} are the inputs after the
    operands, then alt.  The outermost region uses `mech`; inner levels use a random mechanism each (mixed nesting).  After
    every level the running result is re-selected, so the final `res` is the body's value iff all conditions hold, else alt."""
    from vf import opcases
    case = opcases.Case(tid, tmpl, bl, res, ins, consts, rty)
    n = len(ins)
    pre = case.pre_src
    for d in range(depth):
        pre += "c%d = PrivValBool(I[%d])\n" % (d, n + d)
    pre += "alt = PrivVal(I[%d])\n" % (n + depth)
    if mech in ("elif", "dead_else"):
        pre += "e0 = PrivValBool(I[%d])\n" % (n + depth + 1)
    pre += "_ = BranchingValues()\n_.r = alt + 0\n"
    pre += HELPERS
    expr = case.expr
    ung = ("r = %s\n" % expr) if rty is not None else ("%s\n" % expr)
    mechs = [mech] + [(rnd.choice(MECHS) if rnd is not None else mech) for _ in range(depth - 1)]
    lines = ["r = %s" % expr] if rty is not None else [expr, "r = alt"]
    for d in range(depth - 1, -1, -1):
        m = mechs[d]
        body = ["    " + ln for ln in lines]
        if m == "guarded":
            lines = ["@guarded(c%d)" % d, "def _b%d():" % d] + body + ["    return r", "r = _b%d()" % d, "r = if_then_else(c%d, r, alt)" % d]
        elif m == "lazy":
            lines = ["def _t%d():" % d] + body + ["    return r", "r = if_then_else(c%d, _t%d, lambda: alt)" % (d, d)]
        elif m == "lazy_else":
            lines = ["def _t%d():" % d] + body + ["    return r", "r = if_then_else(c%d, lambda: alt, _t%d)" % (d, d)]
        elif m == "dead_else":
            lines = ["_.r = alt + 0", "if _if(e0, ctx=_):", "    _.r = alt + 1", "if _elif(lambda: 1, ctx=_):", "    _.r = alt + 2", "if _else(ctx=_):"] + body + \
                    ["    _.r = r", "_endif(ctx=_)", "r = _.r"]
        elif m == "elif":
            lines = ["_.r = alt + 0", "if _if(e0, ctx=_):", "    _.r = alt + 1", "if _elif(lambda: c%d, ctx=_):" % d] + body + ["    _.r = r", "_endif(ctx=_)", "r = _.r"]
        else:
            lines = ["_.r = alt + 0", "if _if(c%d, ctx=_):" % d] + body + ["    _.r = r", "_endif(ctx=_)", "r = _.r"]
    g = "\n".join(lines + ["res = r"]) + "\n"
    case.mechs = mechs
    return case, pre, ung, g


def sample_operands(case, tmpl, bl, res, rnd, model, G, want_valid, p=None):
    """operands for which the body is valid (strict model accepts) / invalid (model raises)"""
    from vf import opcases
    sl = [s for s in opcases.slots(tmpl) if s in ("i", "b", "f")]
    h = (1 << (bl - 1)) - 1
    prog = G.Prog(case.pre_src + HELPERS + (("r = " if case.rty is not None else "") + case.expr) + "\n", [], bl, res)
    chunks = G.compile_chunks(prog.src)
    for _ in range(60):
        ins = []
        for s in sl:
            if s == "i":
                if want_valid:
                    ins.append(rnd.choice([0, 1, 2, 3, -1, rnd.randint(-h, h), rnd.randint(0, h), rnd.randint(-int(h ** 0.5) - 1, int(h ** 0.5) + 1)]))
                else:
                    ins.append(rnd.choice([0, 0, -1, h + 1, -h - 2, (1 << bl) + rnd.randint(0, 5), -(1 << bl) - 1, 5 << bl, rnd.randint(-h, h), 3, 7] +
                                          ([p, -p, 2 * p] if p else [])))
            elif s == "b":
                ins.append(rnd.randint(0, 1))
            else:
                r = rnd.randint(-h, h) if want_valid else rnd.choice([0, (1 << bl) + 3, -(2 << bl), rnd.randint(-h, h)])
                ins.append(r / (1 << res))
        ref = G.run_ref(prog, ins, strict=True, chunks=chunks)
        ok = ref.exc is None
        if isinstance(ref.exc, (TypeError, AttributeError, model.ModelGap)):
            continue
        if ok == want_valid:
            return ins
    return None


def worker(job):
    from vf import boot, recorder, opcases, r1cs, capture, solve
    from vf.gen import prog as G
    from vf.ref import model
    from vf.progwork import api_number
    rt = boot.attach()
    N = boot.Neutral()
    R = common.Run(PROP, "exploration", RULE)
    from vf.checks import C02
    st = solve.selftest() + C02.gadget_selftest()
    if st:
        R.inconc("solver self-test failed: %r" % (st[:2],))
        return R.export()
    tm = {t[0]: t for t in bodies()}
    moduli = [recorder.BN254, recorder.BLS381, recorder.C25519]
    for item in job["items"]:
        tid, mech = item["tid"], item["mech"]
        _, rty, tmpl = tm[tid]
        rnd = random.Random("%s/%s/%s" % (job["seed"], tid, mech))
        for trial in range(item["n"]):
            bl = rnd.choice([3, 4, 4, 6, 8, 16])
            res = min(rnd.choice([0, 1, 2]), bl - 2) if ("{f}" in tmpl or "{c}" in tmpl) else 0
            depth = rnd.choice([1, 1, 2, 3])
            p = rnd.choice(moduli)
            consts = [rnd.choice(opcases.const_values(s, bl, res, rnd)) for s in opcases.slots(tmpl) if s not in ("i", "b", "f", "a")]
            probe = opcases.Case(tid, tmpl, bl, res, [0] * sum(1 for s in opcases.slots(tmpl) if s in "ibf"), consts, rty)
            valid = sample_operands(probe, tmpl, bl, res, rnd, model, G, True)
            invalid = sample_operands(probe, tmpl, bl, res, rnd, model, G, False, p=p)
            if invalid is None or (valid is None and tid not in PUBLIC_ZERO_DIVISOR):
                # no valid operands: the body is refused for what its text is (e.g. a boolean operator with the constant -2),
                # not for a value it meets - except a public divisor that is zero, which the statement lists (DESIGN 6.16)
                R.count("no_valid_operands_found" if valid is None else "no_invalid_operands_found")
                if valid is None:
                    continue
            alt = rnd.randint(-3, 3)
            # baseline: unguarded on valid operands
            brnd = random.Random(rnd.random())
            mix_seed = brnd.random()
            tails = [[alt]] if mech not in ("elif", "dead_else") else [[alt, 0], [alt, 1]]
            if valid is None:
                # a body that no operand values make valid (e.g. a public zero divisor): it has no unguarded baseline, under a
                # false guard it must still be inert
                R.count("bodies_without_valid_operands")
                base_valid = NoBaseline
            else:
                case, pre, ung, gsrc = build(tid, rty, tmpl, mech, depth, bl, res, valid, consts, random.Random(mix_seed))
                base_valid = run(G, N, pre + ung, valid + [1] * depth + tails[0], bl, res, p)
            for oclass, ops in (("valid", valid), ("invalid", invalid)):
                if ops is None:
                    continue
                case, pre, ung, gsrc = build(tid, rty, tmpl, mech, depth, bl, res, ops, consts, random.Random(mix_seed))
                U = base_valid if oclass == "valid" else run(G, N, pre + ung, ops + [1] * depth + tails[0], bl, res, p)
                for combo, tail in itertools.product(itertools.product((1, 0), repeat=depth), tails):
                    inputs = ops + list(combo) + tail
                    Gd = run(G, N, pre + gsrc, inputs, bl, res, p)
                    eff = all((cv == 0) if mm == "lazy_else" else (cv == 1) for cv, mm in zip(combo, case.mechs)) and (len(tail) == 1 or tail[1] == 0)
                    exp_alt = alt + 1 if (len(tail) == 2 and tail[1] == 1) else alt
                    if mech == "dead_else":
                        eff = False
                        exp_alt = alt + 1 if tail[1] == 1 else alt + 2
                    key = (pre + gsrc, tuple(inputs))
                    cell = "%s|%s|%s|%s" % (tid, mech, "true" if eff else "false", oclass)
                    R.case(cell=cell, key=key, nontrivial=len(Gd.snap["constraints"]) > 0)
                    det = dict(src=pre + gsrc, inputs=inputs, bl=bl, res=res, p=p, unguarded=pre + ung, body=case.expr, entry=mech)
                    if eff:
                        R.count("true_guard_runs")
                        judge_true(R, U, Gd, rty, tid, det, api_number, res)
                    else:
                        R.count("false_guard_runs")
                        judge_false(R, base_valid, Gd, rty, tid, oclass, exp_alt, det, r1cs, api_number, res, case)
                    R.sample(dict(src=pre + gsrc, inputs=inputs, guard=list(combo), operands=oclass,
                                  raised=repr(Gd.exc)[:80] if Gd.exc else None, constraints=len(Gd.snap["constraints"])), cap=6)
            # solver halves on small instances
            if job.get("solver") and bl <= 4 and depth <= 2:
                if valid is not None:
                    solver_halves(R, capture, solve, N, tid, rty, tmpl, mech, depth, bl, res, valid, invalid, consts, alt, p, rnd)
    return R.export()


PUBLIC_ZERO_DIVISOR = {"truediv_pub_zero", "floordiv_pub_zero", "mod_pub_zero", "divmod_pub_zero", "floordiv_pub_counter",
                       "ffloordiv_pub_zero", "fmod_pub_tiny", "fdiv_pub_tiny"}


class NoBaseline:
    exc = None


def run(G, N, src, inputs, bl, res, p):
    prog = G.Prog(src, [], bl, res)
    return G.run_api(prog, inputs, N, modulus=p)


def exc_sig(e):
    return None if e is None else (type(e).__name__, str(e)[:200])


def judge_true(R, U, Gd, rty, tid, det, api_number, res):
    if exc_sig(U.exc) != exc_sig(Gd.exc):
        R.violation("true-guard-different-error:" + tid, "unguarded: %s ; under a true guard: %s" % (exc_sig(U.exc), exc_sig(Gd.exc)), **det)
        return
    if U.exc is None and rty is not None:
        a = api_number(U.ns.get("r"), res)
        b = api_number(Gd.ns.get("res"), res)
        if a[1] is None or b[1] is None:
            R.count("uncomparable")
            return
        R.count("true_guard_values_compared")
        if a[1] != b[1]:
            R.violation("true-guard-different-value:" + tid, "unguarded %s, under a true guard %s" % (a[1], b[1]), **det)
    if Gd.exc is None:
        bad = Gd.snap["online_bad"]
        if bad:
            R.violation("true-guard-unsatisfied:" + tid, "constraint %d unsatisfied under a true guard" % bad[0], **det)


def operands_unchanged(R, Gd, det, tid, where):
    """what went into the region comes out of it: the operand objects still report the values they were created from"""
    ins = det.get("inputs") or []
    for i, v in enumerate(ins):
        o = Gd.ns.get("x%d" % i)
        if o is None or not isinstance(v, int) or isinstance(v, bool):
            continue
        val = getattr(o, "value", None)
        if val is None:
            val = getattr(getattr(o, "lc", None), "value", None)
        if isinstance(val, int) and type(o).__name__ in ("LinComb", "LinCombBool"):
            R.count("operands_compared_after_region")
            if val != v:
                R.violation("operand-changed-by-region:" + tid, "operand x%d was created from %d and reports %d after the %s region" % (i, v, val, where), **det)
                return


def judge_false(R, base_valid, Gd, rty, tid, oclass, alt, det, r1cs, api_number, res, case):
    operands_unchanged(R, Gd, det, tid, "false-guarded")
    if Gd.exc is not None:
        same_unguarded = base_valid.exc is not None and type(base_valid.exc) is type(Gd.exc)
        if same_unguarded:
            R.count("raises_regardless_of_guard")
            return
        R.violation(classify_false_raise(tid, Gd.exc, case), "under a false guard (%s operands) the body raised %s: %s" % (
            oclass, type(Gd.exc).__name__, str(Gd.exc)[:120]), **det)
        return
    R.count("false_guard_%s_operands_inert" % oclass)
    snap = Gd.snap
    bad = r1cs.unsatisfied(snap["constraints"], snap["values"], snap["p"])
    R.count("false_guard_constraints_evaluated", len(snap["constraints"]))
    if bad or snap["online_bad"]:
        R.violation("false-guard-unsatisfied:" + tid, "constraint %s unsatisfied by the recorded witness under a false guard" % (bad[:3] or snap["online_bad"][:3]), **det)
        return
    if rty is not None:
        b = api_number(Gd.ns.get("res"), res)
        if b[1] is not None:
            R.count("false_guard_selected_values_compared")
            want = alt
            if b[0] == "fxp":
                want = alt  # alt is an integer; as a number it is unchanged
            if b[1] != want:
                R.violation("false-guard-selected-value:" + tid, "selected value %s instead of the other branch's %s" % (b[1], alt), **det)


def classify_false_raise(tid, exc, case):
    msg = str(exc)
    if isinstance(exc, ValueError) and msg == "Division by zero":
        return "false-guard-zero-public-divisor-raises" if tid in PUBLIC_ZERO_DIVISOR else "false-guard-zero-secret-divisor-raises"
    if isinstance(exc, ValueError) and msg == "LinCombBool can only take Boolean values":
        return "false-guard-nonboolean-secret-raises"
    return "false-guard-raises:%s:%s" % (tid, type(exc).__name__)


def solver_halves(R, capture, solve, N, tid, rty, tmpl, mech, depth, bl, res, valid, invalid, consts, alt, p, rnd):
    # (a) false guard: the value selected from the other branch is uniquely determined
    if mech in ("elif", "dead_else"):
        return      # the solver halves use the plain mechanisms
    if rty is not None:
        ops = invalid if (invalid is not None and rnd.random() < 0.5) else valid
        case, pre, ung, gsrc = build(tid, rty, tmpl, mech, depth, bl, res, ops, consts, rnd)
        # at least one level not effective
        combo = [rnd.randint(0, 1) for _ in range(depth)]
        k = rnd.randrange(depth)
        combo[k] = 1 if case.mechs[k] == "lazy_else" else 0
        cap = capture.capture(pre, gsrc, ["res"], ops + combo + [alt], N, bl, res, p=p)
        if cap.exc is None:
            r = solve.solve(cap.cons, cap.fixed, p, cap.result_lcs, maxleaves=40000)
            v = r.verdict(cap.honest)
            if v == "inconclusive":
                R.count("solver_inconclusive")
            elif v == "unique":
                R.count("selected_unique")
            else:
                from vf.checks import C02
                if tid in C02.DIV_FAMILY or tid in C02.BITWISE_CONST or tid.startswith("comp_"):
                    R.count("selected_not_unique_masked_by_C02_known_finding")
                else:
                    R.violation("false-guard-selected-not-unique:" + tid, "selected result %s: %s" % (v, sorted(r.values)[:3]),
                                src=pre + gsrc, inputs=ops + combo + [alt], bl=bl, res=res, p=p)
    # (b) true guard: enforcement with checks off equals unguarded enforcement (UNSAT <=> UNSAT)
    if invalid is not None:
        case, pre, ung, gsrc = build(tid, rty, tmpl, mech, depth, bl, res, invalid, consts, rnd)
        inputs = invalid + [0 if mm == "lazy_else" else 1 for mm in case.mechs] + [alt]
        cu = capture.capture(pre, ung, [], inputs, N, bl, res, p=p, ignore=True)
        cg = capture.capture(pre, gsrc, [], inputs, N, bl, res, p=p, ignore=True)
        if cu.exc is not None or cg.exc is not None:
            R.count("enforcement_capture_raised")
            if (cu.exc is None) != (cg.exc is None):
                R.violation("true-guard-different-error-unchecked:" + tid, "checks off: unguarded %r, true guard %r" % (cu.exc, cg.exc),
                            src=pre + gsrc, inputs=inputs, bl=bl, res=res, p=p)
            return
        ru = solve.solve(cu.cons, cu.fixed, p, [], maxleaves=40000)
        rg = solve.solve(cg.cons, cg.fixed, p, [], maxleaves=40000)
        su = bool(ru.values or ru.free)
        sg = bool(rg.values or rg.free)
        if (not su and (ru.inconclusive or ru.budget_exceeded)) or (not sg and (rg.inconclusive or rg.budget_exceeded)):
            R.count("solver_inconclusive")
            return
        R.count("enforcement_compared")
        R.count("enforcement_unsat_both" if not su and not sg else ("enforcement_sat_both" if su and sg else "enforcement_differs"))
        if su != sg:
            R.violation("true-guard-enforcement-differs:" + tid, "invalid operands, checks off: unguarded constraints %s, under a true guard %s" % (
                "satisfiable" if su else "unsatisfiable", "satisfiable" if sg else "unsatisfiable"),
                src=pre + gsrc, unguarded=pre + ung, inputs=inputs, bl=bl, res=res, p=p)


def replay(path):
    d = json.load(open(path))
    det = d["detail"]
    from vf import boot
    boot.attach()
    from vf.gen import prog as G
    N = boot.Neutral()
    out = run(G, N, det["src"], det["inputs"], det["bl"], det["res"], int(det["p"]))
    print(det["src"], det["inputs"], "->", repr(out.exc), "online unsatisfied:", out.snap["online_bad"][:5])
    return 0
