"""C12: qaptools equation / wire / I-O files are consistent and split faithfully (DESIGN.md 4/C12).

One fresh interpreter per generated program (PYSNARK_BACKEND=qaptools, failing stub executables in QAPTOOLS_BIN,
scratch PYSNARK_KEYDIR).  The script logs every boundary event (add_constraint / privval / pubval / sub-circuit
call) itself; after exit all files the backend's own proving step left are parsed by vf/decode/qap.py and compared."""
import hashlib
import json
import os
import random
import shutil
import subprocess
import tempfile

from vf import common, shard, boot

PROP = "C12"
RULE = ("one program = one generated script with 0..3 @subqap functions called 1..3 times (nested calls; arguments that are single "
        "wires, scaled wires, sums, constants; bodies over several gadget families; negative and > p values) run in its own "
        "interpreter; its pysnark_eqs / pysnark_wires / pysnark_values / pysnark_schedule / pysnark_eqs_<fn> are parsed and "
        "compared with the boundary log; non-trivial = the proving step ran and >=1 equation was evaluated; distinct by source; "
        "cell = number of functions x calls x nesting x argument shapes x gadget families")

PREAMBLE = r'''
import json, sys, atexit
sys.set_int_max_str_digits(0)
PROBES = {"sets": 0, "neighbours": 0, "collisions": []}
atexit.register(lambda: json.dump(PROBES, open("probes.json", "w")))     # registered first = runs after the library's own exit hook
def _neighbours(lines):
    """equation sets that differ from `lines` in exactly one line: two adjacent tokens re-split at another place, one digit
    changed, one token dropped"""
    out = []
    for li, ln in enumerate(lines[:40]):
        toks = ln.split(" ")
        for i in range(len(toks) - 1):
            joined = toks[i] + toks[i + 1]
            for k in range(1, len(joined)):
                if k != len(toks[i]):
                    out.append((li, " ".join(toks[:i] + [joined[:k], joined[k:]] + toks[i + 2:])))
                    break
        for i, t in enumerate(toks):
            if t.isdigit():
                out.append((li, " ".join(toks[:i] + [str(int(t) + 1)] + toks[i + 1:])))
                break
        if len(toks) > 3:
            out.append((li, " ".join(toks[:-1])))
    return out[:120]
def _multiset_neighbours(lines):
    """the same equations with one of them stated two more times (another QAP: more constraints, other key material)"""
    return [lines[:i] + [lines[i]] * 3 + lines[i + 1:] for i in range(0, min(len(lines), 12), 3)]
import pysnark.qaptools.backend as qb
LOG = []
CALLS = []
MID = []
_RD = 1
_ac, _pv, _pb = qb.add_constraint, qb.privval, qb.pubval
def _lc(s): return [[int(c), v] for c, v in s.sig]
def add_constraint(v, w, y):
    LOG.append(["con", qb.vc_ctx, _lc(v), _lc(w), _lc(y)])
    return _ac(v, w, y)
def privval(val):
    r = _pv(val)
    LOG.append(["priv", qb.vc_ctx, int(val), _lc(r)])
    return r
def pubval(val):
    r = _pb(val)
    LOG.append(["pub", qb.vc_ctx, int(val), _lc(r)])
    return r
qb.add_constraint, qb.privval, qb.pubval = add_constraint, privval, pubval
import pysnark.qaptools.qapsplit as _qs
_qh = _qs.qaphash
def _qaphash(q):
    q = list(q)
    d = _qh(q)
    PROBES["sets"] += 1
    for li, nl in _neighbours(q):
        if nl == q[li]:
            continue
        PROBES["neighbours"] += 1
        if _qh(q[:li] + [nl] + q[li + 1:]) == d and len(PROBES["collisions"]) < 5:
            PROBES["collisions"].append([q[li], nl, d])
    for v in _multiset_neighbours(q):
        PROBES["neighbours"] += 1
        if _qh(v) == d and len(PROBES["collisions"]) < 5:
            PROBES["collisions"].append([q[0] if q else "", "(one line stated three times instead of once)", d])
    return d
_qs.qaphash = _qaphash
import pysnark.runtime as rt
rt.bitlength = 40
from pysnark.runtime import PrivVal, PubVal, LinComb
def _flat(s, out):
    if isinstance(s, (list, tuple)):
        for x in s: _flat(x, out)
    elif isinstance(s, LinComb): out.append(int(s.value))
    return out
def subqap(name):
    def deco(fn):
        inner = qb.subqap(name)(fn)
        def wrapped(*a):
            r = inner(*a)
            CALLS.append([name, _flat(list(a), []), _flat([r], [])])
            return r
        return wrapped
    return deco
def _dump():
    json.dump(dict(log=LOG, calls=CALLS, mid=MID), open("log.json", "w"))
'''


def gen_script(rnd):
    nfun = rnd.randint(0, 3)
    lines = []
    funs = []
    fam = set()
    shapes = set()
    p = 21888242871839275222246405745257275088548364400416034343698204186575808495617
    lines.append("G0 = PrivVal(11)")
    fnames = rnd.sample(["f0", "f1", "f2", "f_0", "f.0", "f-0", "mix.col", "mix_col", "g1", "G1"], nfun)
    for k in range(nfun):
        ar = rnd.randint(1, 3)
        args = ["a%d" % i for i in range(ar)]
        fwd = [f_ for f_ in funs if f_[2] == 1 and f_[1] <= ar]
        if fwd and rnd.random() < 0.3:
            # a pure forwarder: the whole body is one call of another sub-circuit on (some of) its own arguments
            g, gar, gres = rnd.choice(fwd)
            shapes.add("forwarder")
            lines.append("@subqap(\"%s\")" % fnames[k])
            lines.append("def f%d(%s):" % (k, ", ".join(args)))
            lines.append("    return %s(%s)" % (g, ", ".join(rnd.sample(args, gar))))
            funs.append(("f%d" % k, ar, 1))
            continue
        body = []
        names = list(args)
        for j in range(rnd.randint(1, 4)):
            x, y = rnd.choice(names), rnd.choice(names)
            c = rnd.random()
            if rnd.random() < 0.05:
                # a variable of the caller captured by the function body (user error): the splitter has to report the mixed equation
                st, f = rnd.choice(["%s * G0", "G0 * %s", "%s + G0 * %s"]).replace("%s", x), "closure-captures-caller-variable"
            elif c < 0.35:
                st, f = "%s * %s" % (x, y), "mul"
            elif c < 0.5:
                st, f = "%s + %s * %d" % (x, y, rnd.randint(-3, 3)), "lin"
            elif c < 0.6:
                st, f = "LinComb.from_bits((%s * %s + 1 + a0 * 0).to_bits())" % (x, x), "bits"
            elif c < 0.68:
                st, f = "(%s * %s + 7 + a0 * 0) // (%s * %s + 1 + a0 * 0)" % (x, x, y, y), "div"
            elif c < 0.76:
                st, f = "(%s * %s + a0 * 0 < %s * %s + 2) * %s" % (x, x, y, y, x), "cmp"
            elif c < 0.8:
                st, f = "(%s + a0 * 0 == %s) * %s" % (x, y, x), "eq(const-one-wire)"
            elif c < 0.83:
                st, f = "%s * 1\n    (%s + a0 * 0).assert_lt(1000)" % (x, x), "assert-int(const-one-wire)"
            elif c < 0.86:
                st, f = "%s + 0\n    (%s + a0 * 0).val()" % (x, x), "public-output-inside-function"
            elif c < 0.89:
                st, f = "%s * 1\n    (%s * %s - %s * %s).assert_zero()\n    (%s * %s - %s * %s).assert_zero()" % (x, x, y, x, y, x, y, x, y), "duplicate-equation"
                st = "%s * 1\n    _d = %s * %s + a0 * 0\n    (_d - %s).assert_eq(_d - %s)\n    (_d - %s).assert_eq(_d - %s)" % (x, x, y, y, y, y, y)
            elif funs and c < 0.95:
                g, gar, gres = rnd.choice(funs)
                st = "%s(%s)%s" % (g, ", ".join((rnd.choice(names) + (" + a0 * 0" if ai == 0 else "")) for ai in range(gar)), "[0]" if gres > 1 else "")
                if gres == 0:
                    st = "%s * 1\n    %s" % (x, st)
                f = "nested-call"
            else:
                st, f = "%s - %s" % (x, y), "lin"
            fam.add(f)
            nm = "t%d" % j
            body.append("    %s = %s" % (nm, st))
            names.append(nm)
        nres = rnd.randint(1, 2)
        res = [rnd.choice(names[ar:] or names) for _ in range(nres)]
        if nres == 2 and rnd.random() < 0.25:
            res[1] = res[0]                      # the same callee wire returned twice
            shapes.add("same-wire-returned-twice")
        if rnd.random() < 0.3:
            res[0] = "%s + %s" % (res[0], rnd.choice(names))     # a result that is not a single wire
            shapes.add("result-sum")
        lines.append("@subqap(\"%s\")" % fnames[k])
        lines.append("def f%d(%s):" % (k, ", ".join(args)))
        lines.extend(body)
        if rnd.random() < 0.15:
            # a sub-circuit that calls itself once while it is being traced (two calls of the same function are active at once)
            shapes.add("self-recursive")
            rargs = [rnd.choice(names[ar:] or names) + " + a0 * 0"] + [rnd.choice(names) for _ in range(ar - 1)]
            lines += ["    global _RD", "    if _RD > 0:", "        _RD -= 1", "        try:", "            f%d(%s)" % (k, ", ".join(rargs)),
                      "        finally:", "            _RD += 1"]
        if rnd.random() < 0.15:
            # an assertion-only sub-circuit: no return value
            lines.append("    (%s * %s + a0 * 0).assert_eq(%s * %s)" % (names[0], names[-1], names[-1], names[0]))
            lines.append("    return None")
            funs.append(("f%d" % k, ar, 0))
            shapes.add("no-return-value")
            continue
        nested_last = [f_ for f_ in funs if f_[2] == 1 and f_[1] >= 1]
        if nested_last and nres == 1 and rnd.random() < 0.5:
            # the function's last wire-allocating action is a call of another sub-circuit whose result it hands straight back
            g, gar, gres = rnd.choice(nested_last)
            shapes.add("returns-nested-call-result")
            lines.append("    return %s(%s)" % (g, ", ".join((rnd.choice(names) + (" + a0 * 0" if ai == 0 else "")) for ai in range(gar))))
            funs.append(("f%d" % k, ar, 1))
            continue
        lines.append("    return %s" % (res[0] if nres == 1 else "[" + ", ".join(res) + "]"))
        funs.append(("f%d" % k, ar, nres))
    listfun = None
    if rnd.random() < 0.2:
        # a sub-circuit that receives a list and works on it in place (the caller's and the callee's blocks must still pair the
        # arguments as they were handed over)
        ln = rnd.randint(2, 3)
        lines.append("@subqap(\"lst%d\")" % ln)
        lines.append("def fL(v):")
        lines.append("    v[0] = v[0] * v[1] + v[%d]" % (ln - 1))
        if rnd.random() < 0.5:
            lines.append("    v[1] = v[0] * v[0]")
        lines.append("    return v[0] + v[%d] * 2" % (ln - 1))
        listfun = ln
        shapes.add("list-argument-modified-in-place")
    ring_only = not (fam & {"bits", "div", "cmp", "assert-int(const-one-wire)"})
    hostile = [0, 1, 2, 3, 5, 7, -1, -4, 12] + ([p + 2, p - 1, -p - 3, (1 << 260) + 5] if ring_only else [])
    vals = [rnd.choice(hostile) if rnd.random() < 0.25 else rnd.randint(0, 9) for _ in range(rnd.randint(2, 4))]
    names = []
    for i, v in enumerate(vals):
        lines.append("x%d = %s(%d)" % (i, "PubVal" if rnd.random() < 0.3 else "PrivVal", v))
        names.append("x%d" % i)
    ncalls = 0
    repeat_const = funs and rnd.random() < 0.3       # the same function called with constant arguments that differ between calls
    if repeat_const:
        g, gar, gres = rnd.choice(funs)
        x = rnd.choice(names)
        for j, cst in enumerate(rnd.sample([1, 2, 3, 5], 2)):
            args = [x] + [str(cst)] * (gar - 1) if gar > 1 else [x]
            if gres == 0:
                lines.append("%s(%s)" % (g, ", ".join(args)))
            else:
                lines.append("q%d = %s(%s)%s" % (j, g, ", ".join(args), "[0]" if gres > 1 else ""))
                names.append("q%d" % j)
            ncalls += 1
        shapes.add("same-function-different-constants")
    for j in range(rnd.randint(1, 5)):
        if funs and rnd.random() < 0.7:
            g, gar, gres = rnd.choice(funs)
            args = []
            same = rnd.choice(names) if (gar > 1 and rnd.random() < 0.2) else None      # f(x, x): one caller wire for several parameters
            if same is not None:
                shapes.add("same-wire-for-several-parameters")
            for ai in range(gar):
                x = same or rnd.choice(names)
                if same is not None:
                    args.append(x)
                    continue
                c = rnd.random() * (0.85 if ai == 0 else 1.0)      # a0 is always a circuit value (bodies call methods on it)
                if c < 0.45:
                    args.append(x)
                    shapes.add("single")
                elif c < 0.65:
                    args.append("%d * %s" % (rnd.choice([2, 3, -1]), x))
                    shapes.add("scaled")
                elif c < 0.85:
                    args.append("%s + %s" % (x, rnd.choice(names)))
                    shapes.add("sum")
                else:
                    args.append(str(rnd.randint(0, 5)))
                    shapes.add("const")
            if gres == 0:
                lines.append("%s(%s)" % (g, ", ".join(args)))
                ncalls += 1
                continue
            lines.append("r%d = %s(%s)%s" % (j, g, ", ".join(args), "[%d]" % rnd.randrange(gres) if gres > 1 else ""))
            ncalls += 1
        else:
            x, y = rnd.choice(names), rnd.choice(names)
            lines.append("r%d = %s" % (j, rnd.choice(["%s * %s" % (x, y), "%s + %s" % (x, y), "%s * %s - %s" % (x, y, x)])))
        names.append("r%d" % j)
    if listfun:
        for j in range(rnd.randint(1, 2)):
            lines.append("rl%d = fL([%s])" % (j, ", ".join(rnd.choice(names) + (" + x0 * 0" if k == 0 else "") for k in range(listfun))))
            names.append("rl%d" % j)
            ncalls += 1
    if rnd.random() < 0.2:
        # the proving step is not a one-shot: an explicit prove() in the middle, the exit hook proves again at the end
        lines.append("try:\n    qb.prove()\nexcept Exception as _e:\n    MID.append(repr(_e))")
        shapes.add("explicit-prove-midway")
        x, y = rnd.choice(names), rnd.choice(names)
        lines.append("mid = %s * %s" % (x, y))
        names.append("mid")
    for j in range(rnd.randint(0, 2)):
        lines.append("o%d = (%s + x0 * 0).val()" % (j, rnd.choice(names)))
    if rnd.random() < 0.6:
        # activity after the last public value / block declaration (nothing flushes it)
        x, y = rnd.choice(names), rnd.choice(names)
        lines.append("tail = %s * %s + %s + x0 * 0" % (x, y, x))
        lines.append("(tail - tail).assert_zero()")
        shapes.add("tail-after-last-flush")
    src = "\n".join(lines) + "\n_dump()\n"
    cell = "f%d|calls%d|%s|%s" % (nfun, min(ncalls, 3), "+".join(sorted(shapes)) or "-", "+".join(sorted(fam)) or "-")
    return src, cell


def main():
    tier = common.tier()
    nshards, n = (16, 25) if tier == "quick" else (32, 600)
    jobs = [dict(seed="%d/%s/%d" % (common.seed(), PROP, s), n=n) for s in range(nshards)]
    R = common.Run(PROP, "translation_validation", RULE)
    digests = {}
    boot.spread_pyflags(jobs)
    for job, res, err in shard.run_jobs("vf.checks.C12", "worker", jobs, timeout=3600, nproc=16):
        if err:
            R.inconc("worker %s: %s" % (job["seed"], err))
            continue
        for d, h in res.pop("digests", []):
            if d in digests and digests[d] != h:
                R.violation("digest-collision", "digest %s stands for two different equation sets" % d)
            digests[d] = h
        R.merge(res)
    if R.counters.get("script_raised_before_end", 0) * 5 > R.counters.get("programs_validated", 0):
        R.inconc("more than a sixth of the generated scripts raised before their end (%d of %d): the workload is not what it is meant to be"
                 % (R.counters.get("script_raised_before_end", 0), R.counters.get("script_raised_before_end", 0) + R.counters.get("programs_validated", 0)))
    R.extra["programs"] = R.counters.get("programs_validated", 0)
    R.extra["disagreements_checked"] = R.counters.get("comparisons", 0)
    R.extra["distinct_digests"] = len(digests)
    R.assumptions = ["external qaptools binaries are absent: failing stubs make the proving step stop after pysnark has written all of its own files",
                     "blinding wires (*/delta?, */rnd?_*) are random and excluded from value comparisons"]
    return R.finish(require_counters=("programs_validated", "equations_evaluated", "glue_blocks_checked", "traced_equations_matched",
                                      "public_values_checked", "function_files_compared", "signature_neighbours_probed"))


def worker(job):
    from vf.decode import qap
    R = common.Run(PROP, "translation_validation", RULE)
    import sys as _sys
    if _sys.flags.optimize:
        R.count("workers_under_python_O%s" % ("O" if _sys.flags.optimize > 1 else ""))
    rnd = random.Random(job["seed"])
    home = os.getcwd()
    digests = []
    for n in range(job["n"]):
        src, cell = gen_script(rnd)
        wd = tempfile.mkdtemp(prefix="c12-", dir=home)
        try:
            os.makedirs(os.path.join(wd, "keys"))
            open(os.path.join(wd, "prog.py"), "w").write(PREAMBLE + src)
            env = boot.child_env({"PYSNARK_BACKEND": "qaptools", "QAPTOOLS_BIN": os.path.join(boot.SHIMS, "qaptools_bin"),
                                  "PYSNARK_KEYDIR": os.path.join(wd, "keys")})
            pr = subprocess.run([boot.PY] + boot.pyflags() + ["prog.py"], cwd=wd, env=env, stdout=subprocess.PIPE, stderr=subprocess.PIPE, timeout=300)
            err = pr.stderr.decode(errors="replace")
            if not os.path.exists(os.path.join(wd, "log.json")):
                R.count("script_raised_before_end")
                R.case(nontrivial=False)
                continue
            validate(R, qap, wd, src, cell, err, pr.returncode, digests)
        finally:
            shutil.rmtree(wd, ignore_errors=True)
    out = R.export()
    out["digests"] = digests
    return out


def validate(R, qap, wd, src, cell, err, rc, digests):
    import sys
    sys.set_int_max_str_digits(0)
    p = qap.P
    kd = os.path.join(wd, "keys")
    log = json.load(open(os.path.join(wd, "log.json")))
    det = dict(src=src, stderr_tail=err[-600:])
    problems = []
    try:
        probes = json.load(open(os.path.join(wd, "probes.json")))
    except (OSError, ValueError):
        probes = None
    if probes is not None:
        # the signature function as the splitter called it, probed online on near-miss neighbours of each real equation set
        R.count("signatures_computed", probes["sets"])
        R.count("signature_neighbours_probed", probes["neighbours"])
        for a, b, d in probes["collisions"]:
            R.violation("signature-collision", "equation sets differing in one line (%r vs %r) have the same signature %s" % (a[:80], b[:80], d), **det)

    def rd(fn):
        try:
            return open(os.path.join(kd, fn)).read()
        except OSError:
            return None
    eqs_t, wires_t, io_t, sched_t = rd("pysnark_eqs"), rd("pysnark_wires"), rd("pysnark_values"), rd("pysnark_schedule")
    if None in (eqs_t, wires_t, io_t):
        R.violation("files-missing", "backend files missing after exit", **det)
        return
    try:
        items = qap.parse_eqs(eqs_t)
        wires = qap.parse_values(wires_t)
        io = qap.parse_values(io_t)
    except (qap.ParseError, ValueError) as e:
        R.violation("file-unparsable", "cannot parse backend files: %s" % e, **det)
        return
    ncomp = 0
    # (0) what the external tools find on disk when the proving step starts them must already be complete
    for fn_, full in (("pysnark_values", io_t), ("pysnark_wires", wires_t), ("pysnark_eqs", eqs_t)):
        snap_t = rd(fn_ + ".at_prove")
        if snap_t is None:
            continue
        R.count("files_snapshotted_at_proving_time")
        if "qb.prove()" in src:
            continue        # an explicit mid-run prove(): later content is legitimately absent from that snapshot
        strip = lambda t: [ln.strip() for ln in t.splitlines() if ln.strip() and not ln.strip().startswith("#")]
        if strip(snap_t) != strip(full):
            problems.append(("file-incomplete-at-proving-time", "%s as the external tools see it at proving time lacks %d line(s) that only appear at interpreter exit" % (
                fn_, len(strip(full)) - len(strip(snap_t)))))
    neq = 0
    for it in items:
        if it[0] != "eq":
            continue
        neq += 1
        try:
            a, b, c = (qap.eval_lc(x, wires, io, p) for x in it[1:4])
        except KeyError as e:
            problems.append(("undefined-wire", "equation mentions %s which is in neither value file: %s" % (e, it[4])))
            continue
        if (a * b - c) % p:
            problems.append(("equation-unsatisfied", "equation not satisfied by the wire/I-O values: %s" % it[4][:200]))
    R.count("equations_evaluated", neq)
    ncomp += neq
    # (2) every public value: I/O entry + linking equation
    eqset = set(qap.canon_line(qap_line(it)) for it in items if it[0] == "eq")
    nio = {}
    for ev in log["log"]:
        if ev[0] != "pub":
            continue
        ctx, val, sid = ev[1], ev[2], ev[3][0][1]
        nio[ctx] = nio.get(ctx, 0) + 1
        sido = "%s/o_%d" % (ctx, nio[ctx])
        ncomp += 1
        R.count("public_values_checked")
        if io.get(sido) is None or (io[sido] - val) % p or (wires.get(sid, val + 1) - val) % p:
            problems.append(("public-value-not-in-io", "public value %d (wire %s) has no matching I/O entry %s" % (val, sid, sido)))
        if qap.canon_line("* = 1 %s -1 %s" % (sid, sido)) not in eqset:
            problems.append(("public-value-not-linked", "no equation ties wire %s to I/O wire %s" % (sid, sido)))
    # (3) traced equations: present in pysnark_eqs, single context
    mixed = 0
    for ev in log["log"]:
        if ev[0] != "con":
            continue
        A, B, C = ([(c, v) for c, v in x] for x in ev[2:5])
        line = qap.canon_line(" ".join("%d %s" % t for t in A) + " * " + " ".join("%d %s" % t for t in B) + " = " + " ".join("%d %s" % t for t in C))
        ncomp += 1
        if line not in eqset:
            problems.append(("traced-equation-missing", "traced equation not in pysnark_eqs: %s" % line[:160]))
        else:
            R.count("traced_equations_matched")
        ctxs = qap.eq_contexts(A, B, C)
        if len(ctxs) > 1:
            mixed += 1
            foreign = {v for x in (A, B, C) for _, v in x if qap.context_of(v) != ev[1]}
            mech = "constant-one-wire-of-main-inside-subcircuit" if foreign == {"main/onex"} and ev[1] != "main" else "equation-mixes-contexts"
            if mech == "equation-mixes-contexts" and "closure-captures-caller-variable" in cell:
                # the script itself mixes contexts (a captured variable of the caller): what is owed is the splitter's report
                R.count("deliberately_mixed_equations")
                if "*** qaptools subroutines:" in err or "Inconsistent contexts" in err:
                    if "Inconsistent contexts" not in err:
                        problems.append(("mixed-context-equation-not-reported", "an equation over variables of contexts %s went through the splitter unreported: %s" % (sorted(ctxs), line[:160])))
                    else:
                        R.count("mixed_equation_reported_by_splitter")
                continue
            problems.append((mech, "equation traced in context %s over variables of contexts %s: %s" % (ev[1], sorted(ctxs), line[:160])))
    # (4) per-function files vs an independent split of the complete equation file
    calls, order, sets = qap.split_reference(items)
    proving_ran = "*** qaptools subroutines:" in err
    splitter_failed = "Inconsistent" in err or "Traceback" in err
    if proving_ran and not splitter_failed:
        byfn = {}
        for call in order:
            fn = calls[call]
            want = sorted(sets.get(call, []))
            byfn.setdefault(fn, []).append((call, want))
        # the schedule names the equation file of every call
        sched_file = {}
        for ln in (sched_t or "").splitlines():
            tk = ln.split()
            if tk and tk[0] == "[function]" and len(tk) >= 3:
                sched_file[tk[1]] = tk[2]
        for fn, lst in byfn.items():
            path = sched_file.get(lst[0][0])
            if path is None:
                problems.append(("function-not-scheduled", "call %s of %s is not in the schedule" % (lst[0][0], fn)))
                continue
            if len({sched_file.get(c) for c, _ in lst}) != 1:
                problems.append(("function-file-differs", "calls of %s are scheduled with different equation files" % fn))
            try:
                ft = open(path if os.path.isabs(path) else os.path.join(wd, path)).read()
            except OSError:
                ft = None
            ncomp += 1
            R.count("function_files_compared")
            if ft is None:
                problems.append(("function-file-missing", "no per-function equation file for %s" % fn))
                continue
            got = sorted(qap.canon_line(x) for x in ft.splitlines() if x.strip())
            first = lst[0][1]
            if got != first:
                import collections
                cf, cg = collections.Counter(first), collections.Counter(got)
                missing = list((cf - cg).elements())
                extra = list((cg - cf).elements())
                problems.append(("function-file-differs", "pysnark_eqs_%s differs from the equations of call %s: missing %s extra %s" % (
                    fn, lst[0][0], missing[:2], extra[:2])))
            for call, want in lst[1:]:
                if want != first:
                    problems.append(("inconsistent-calls-not-reported", "calls %s and %s of %s have different equation sets and no inconsistency was reported" % (
                        lst[0][0], call, fn)))
            h = hashlib.md5("\n".join(first).encode()).hexdigest()
            last_round = err[err.rfind("*** qaptools subroutines:"):]      # digests printed by the final proving step only
            for ln in last_round.splitlines():
                if ln.startswith("***    id:") and (" function: %s " % fn) in ln:
                    dg = ln.split("digest:")[1].split()[0]
                    digests.append([dg, h])
    elif splitter_failed:
        R.count("splitter_reported_inconsistency")
    # (5) glue: paired blocks list all arguments/results and carry equal values
    blocks = {(it[1], it[2]): it[3] for it in items if it[0] == "ioblock"}
    glues = [it for it in items if it[0] == "glue"]
    if len(glues) != len(log["calls"]):
        problems.append(("glue-count", "%d sub-circuit calls, %d [glue] lines" % (len(log["calls"]), len(glues))))
    for g, call in zip(glues, log["calls"]):
        b1, b2 = blocks.get((g[1], g[2])), blocks.get((g[3], g[4]))
        ncomp += 1
        R.count("glue_blocks_checked")
        if b1 is None or b2 is None:
            problems.append(("glue-block-missing", "[glue] %s refers to an undeclared block" % (g[1:],)))
            continue
        want = len(call[1]) + len(call[2])
        if len(b1) != len(b2) or len(b1) != want:
            problems.append(("glue-block-length", "call of %s with %d arguments and %d results glued by blocks of %d and %d wires" % (
                call[0], len(call[1]), len(call[2]), len(b1), len(b2))))
            continue
        for w1, w2, val in zip(b1, b2, call[1] + call[2]):
            v1, v2 = wires.get(w1), wires.get(w2)
            if v1 is None or v2 is None or (v1 - v2) % p or (v1 - val) % p:
                problems.append(("glue-values-differ", "glued wires %s=%s and %s=%s (argument/result value %s)" % (w1, v1, w2, v2, val)))
                break
    if sched_t is not None:
        sg = [ln.split() for ln in sched_t.splitlines() if ln.startswith("[glue]")]
        if sg != [["[glue]"] + list(g[1:]) for g in glues] and not splitter_failed:
            problems.append(("schedule-glue-differs", "schedule lists %d glue lines, the equation file %d" % (len(sg), len(glues))))
    R.count("comparisons", ncomp)
    R.count("programs_validated")
    R.case(cell=cell, key=src, nontrivial=neq > 0 and proving_ran)
    R.sample(dict(src=src, equations=neq, calls=len(log["calls"]), proving_step_ran=proving_ran), cap=3)
    seen = set()
    for mech, what in problems:
        if mech not in seen:
            seen.add(mech)
            R.violation(mech, what, **det)


def qap_line(it):
    return it[4]


def replay(path):
    d = json.load(open(path))
    print(d["mech"], d["what"])
    print(d["detail"]["src"])
    return 0
