"""C13: backend linear combinations are a faithful immutable algebra over the right prime field (DESIGN.md 4/C13).

icontract snapshot/ensure contracts are wrapped around __add__/__sub__/__mul__/__neg__ of each real backend's
linear-combination class (one interpreter per backend/field configuration); the harness drives random expression DAGs
through them; post-conditions evaluate operands and result on a random assignment and compare deep snapshots."""
import json
import os
import random

from vf import common, shard, boot

PROP = "C13"
CONFIGS = {
    "snarkjs": ("pysnark.snarkjsbackend", "bn254"),
    "zkinterface": ("pysnark.zkinterface.backend", "bn254"),
    "zkifbellman": ("pysnark.zkinterface.backendbellman", "bls12-381"),
    "zkifbulletproofs": ("pysnark.zkinterface.backendbulletproofs", "curve25519"),
    "qaptools": ("pysnark.qaptools.backend", "bn254"),
}
RULE = ("one case = one LC operation (add/sub/neg/scale) inside a random expression DAG over variables, zero(), one() and shared "
        "sub-terms, scalars from {0, +-1, small, negative, p, p+3, 2^300}, judged by the post-condition contract (evaluation on a "
        "random assignment equals the field expression of the operands' evaluations; operands deep-equal to their snapshots), or "
        "one fieldinverse / modulus check; non-trivial = the contract was evaluated; distinct by (backend, operation, operand "
        "digests); cell = backend x operation x scalar class")


def curve_orders():
    u = 4965661367192848881
    bn = 36 * u ** 4 + 36 * u ** 3 + 18 * u ** 2 + 6 * u + 1
    x = -0xd201000000010000
    bls = x ** 4 - x ** 2 + 1
    ed = 2 ** 252 + 27742317777372353535851937790883648493
    return {"bn254": bn, "bls12-381": bls, "curve25519": ed}


def is_prime(n, rounds=40):
    if n < 2:
        return False
    for q in (2, 3, 5, 7, 11, 13, 17, 19, 23, 29, 31, 37):
        if n % q == 0:
            return n == q
    d, s = n - 1, 0
    while d % 2 == 0:
        d //= 2
        s += 1
    rnd = random.Random(n)
    for _ in range(rounds):
        a = rnd.randrange(2, n - 1)
        x = pow(a, d, n)
        if x in (1, n - 1):
            continue
        for _ in range(s - 1):
            x = x * x % n
            if x == n - 1:
                break
        else:
            return False
    return True


def main():
    tier = common.tier()
    n = 20000 if tier == "quick" else 200000
    jobs = [dict(seed="%d/%s/%s" % (common.seed(), PROP, be), backend=be, n=(n if be != "qaptools" else n // 6)) for be in CONFIGS]
    R = common.Run(PROP, "exploration", RULE)
    for job, res, err in shard.run_jobs("vf.checks.C13", "worker", jobs, timeout=3600, nproc=16, shims=("flatbuffers",)):
        if err:
            R.inconc("worker %s: %s" % (job["seed"], err))
            continue
        R.merge(res)
    R.assumptions = ["libsnark backends are native and absent: not observable", "gmpy2 is absent: the pure-Python invert of pysnark/gmpy.py is the one exercised"]
    req = ["contract_evaluations", "inverses_checked", "modulus_checked"] + ["contract_evaluations:" + be for be in CONFIGS]
    return R.finish(require_counters=req)


def worker(job):
    import importlib
    import tempfile
    boot.paths()
    import icontract
    be = job["backend"]
    modname, curve = CONFIGS[be]
    R = common.Run(PROP, "exploration", RULE)
    rnd = random.Random(job["seed"])
    if be == "qaptools":
        os.environ["QAPTOOLS_BIN"] = os.path.join(boot.SHIMS, "qaptools_bin")
        os.environ["PYSNARK_KEYDIR"] = tempfile.mkdtemp(prefix="c13-", dir=os.getcwd())
    mod = importlib.import_module(modname)
    p = mod.get_modulus()
    want = curve_orders()[curve]
    R.count("modulus_checked")
    R.case(cell="%s|modulus" % be, key=(be, "modulus"))
    if p != want or not is_prime(p):
        R.violation("wrong-modulus", "%s reports modulus %d; the scalar field of %s has prime order %d" % (be, p, curve, want), backend=be)
    qap = be == "qaptools"
    cls = mod.Sig if qap else mod.LinearCombination
    assign_cache = {}

    def aval(key):
        if key == 0 or (isinstance(key, str) and (key.endswith("/onex") or key.endswith("/one"))):
            return 1
        if key not in assign_cache:
            assign_cache[key] = random.Random("%s/%r" % (job["seed"], key)).randrange(p)
        return assign_cache[key]

    def ev(lc):
        if qap:
            return sum(c * aval(v) for c, v in lc.sig) % p
        return sum(c * aval(k) for k, c in lc.lc.items()) % p

    def deep(lc):
        return tuple(lc.sig) if qap else tuple(sorted(lc.lc.items()))

    state = dict(evals=0, bad=[])

    class AlgebraBroken(Exception):
        pass

    def snap_bin(self, other):
        return (deep(self), deep(other) if isinstance(other, cls) else other, ev(self), ev(other) if isinstance(other, cls) else None)

    def snap_un(self):
        return (deep(self), ev(self))

    def mk_post(opname, f):
        def post(self, other, result, OLD):
            state["evals"] += 1
            ds, do, es, eo = OLD.ops
            if deep(self) != ds:
                state["bad"].append(("operand-mutated:" + opname, "left operand changed by %s" % opname))
            if isinstance(other, cls) and deep(other) != do:
                state["bad"].append(("operand-mutated:" + opname, "right operand changed by %s" % opname))
            wantv = f(es, eo if eo is not None else other) % p
            if isinstance(result, cls) and deep(result) != deep(result):
                # reading a result must not use it up (a one-shot iterator as term container evaluates correctly exactly once)
                state["bad"].append(("result-changes-when-read:" + opname, "the result of %s has different terms the second time it is read" % opname))
            elif not isinstance(result, cls) or ev(result) != wantv:
                state["bad"].append(("evaluation-differs:" + opname, "%s: result evaluates to %s, operands give %s" % (
                    opname, ev(result) if isinstance(result, cls) else type(result).__name__, wantv)))
            return True
        return post

    def post_neg(self, result, OLD):
        state["evals"] += 1
        ds, es = OLD.ops
        if deep(self) != ds:
            state["bad"].append(("operand-mutated:neg", "operand changed by negation"))
        if isinstance(result, cls) and deep(result) != deep(result):
            state["bad"].append(("result-changes-when-read:neg", "the result of negation has different terms the second time it is read"))
        elif not isinstance(result, cls) or ev(result) != (-es) % p:
            state["bad"].append(("evaluation-differs:neg", "negation evaluates to %s, expected %s" % (ev(result), (-es) % p)))
        return True

    cls.__add__ = icontract.snapshot(snap_bin, name="ops")(icontract.ensure(mk_post("add", lambda a, b: a + b), error=AlgebraBroken)(cls.__add__))
    cls.__sub__ = icontract.snapshot(snap_bin, name="ops")(icontract.ensure(mk_post("sub", lambda a, b: a - b), error=AlgebraBroken)(cls.__sub__))
    cls.__mul__ = icontract.snapshot(snap_bin, name="ops")(icontract.ensure(mk_post("mul", lambda a, b: a * b), error=AlgebraBroken)(cls.__mul__))
    cls.__neg__ = icontract.snapshot(snap_un, name="ops")(icontract.ensure(post_neg, error=AlgebraBroken)(cls.__neg__))

    scalars = [("0", 0), ("1", 1), ("-1", -1), ("small", 7), ("neg", -12345), ("p", p), ("p+3", p + 3), ("2^300", 1 << 300), ("-2^300", -(1 << 300))]
    pool = [mod.zero(), mod.one(), mod.one()]
    for i in range(6):
        pool.append(mod.privval(rnd.randrange(p)) if rnd.random() < 0.6 else mod.pubval(rnd.randrange(p)))
    shared_one = pool[1]

    def size(lc):
        return len(lc.sig) if qap else len(lc.lc)

    for n in range(job["n"]):
        op = rnd.choice(["add", "sub", "mul", "neg", "add", "mul"])
        a = rnd.choice(pool)
        before = len(state["bad"])
        sc = "?"
        try:
            if op == "add":
                b = rnd.choice(pool + [a, shared_one])
                r, sc = a + b, "lc"
            elif op == "sub":
                b = rnd.choice(pool + [a, shared_one])
                r, sc = a - b, "lc"
            elif op == "mul":
                sc, k = rnd.choice(scalars)
                if sc == "small":
                    k = rnd.randint(2, 99)
                r = a * k
            else:
                r, sc = -a, "-"
            size(r)
        except AlgebraBroken:
            raise
        except Exception as e:  # noqa - an operator of the backend's own algebra failed on operands it produced itself
            R.case(cell="%s|%s|%s" % (be, op, sc), key=(be, op, n))
            R.violation("algebra-operation-raised:" + op, "%s on linear combinations produced by the backend raised %s: %s" % (op, type(e).__name__, str(e)[:120]), backend=be, op=op, scalar=sc)
            if len(R.violations if hasattr(R, "violations") else []) > 50:
                break
            continue
        R.case(cell="%s|%s|%s" % (be, op, sc), key=(be, op, deep(a)[:6], n))
        if len(state["bad"]) > before:
            mech, what = state["bad"][before]
            R.violation(mech, what, backend=be, op=op, scalar=sc)
        if size(r) <= (60 if qap else 40):
            pool.append(r)
        if len(pool) > 60:
            pool.pop(rnd.randrange(3, len(pool)))
        if n % 50 == 0:
            R.sample(dict(backend=be, op=op, scalar=sc, terms=size(r)), cap=5)
    # augmented assignment on a name that aliases an operand: `acc = a; acc += b` must leave `a` alone
    for n in range(max(50, job["n"] // 20)):
        a, b = rnd.choice(pool), rnd.choice(pool)
        da, ea, eb = deep(a), ev(a), ev(b)
        op = rnd.choice(["+=", "-=", "*="])
        acc = a
        try:
            if op == "+=":
                acc += b
                want = (ea + eb) % p
            elif op == "-=":
                acc -= b
                want = (ea - eb) % p
            else:
                k = rnd.choice([0, 1, -1, 7, p + 3, -(1 << 300)])
                acc *= k
                want = ea * k % p
        except AlgebraBroken:
            raise
        except Exception as e:  # noqa
            R.case(cell="%s|augmented %s" % (be, op), key=(be, op, n))
            R.violation("algebra-operation-raised:" + op, "`acc %s b` on linear combinations produced by the backend raised %s: %s" % (op, type(e).__name__, str(e)[:120]), backend=be)
            continue
        R.count("augmented_ops_checked")
        R.case(cell="%s|augmented %s" % (be, op), key=(be, op, da[:4], n))
        if deep(a) != da:
            R.violation("operand-mutated:augmented", "`acc = a; acc %s b` changed a" % op, backend=be)
        if ev(acc) != want:
            R.violation("evaluation-differs:augmented", "`acc %s b` evaluates to %s, expected %s" % (op, ev(acc), want), backend=be)
    # the shared constant must still be the constant
    if ev(shared_one) != 1 or ev(mod.one()) != 1 or ev(mod.zero()) != 0:
        R.violation("shared-constant-mutated", "one()/zero() no longer evaluate to 1/0 after the workload", backend=be)
    R.count("contract_evaluations", state["evals"])
    R.count("contract_evaluations:" + be, state["evals"])
    # field inverse
    for n in range(max(200, job["n"] // 10)):
        v = rnd.choice([1, -1, 2, p - 1, p + 1, -p - 1, 2 * p + 5, -(1 << 300) + 1, (1 << 300) + 7, rnd.randrange(1, p), -rnd.randrange(1, p), rnd.randrange(p, 1 << 400)])
        if v % p == 0:
            continue
        R.count("inverses_checked")
        R.case(cell="%s|inverse|%s" % (be, "neg" if v < 0 else (">=p" if v >= p else "reduced")), key=(be, "inv", v))
        try:
            inv = mod.fieldinverse(v)
        except Exception as e:  # noqa
            R.violation("inverse-raised", "fieldinverse(%d) raised %r" % (v, e), backend=be)
            continue
        if not isinstance(inv, int) or (v * inv) % p != 1:
            R.violation("inverse-wrong", "fieldinverse(%d) = %r is not the inverse modulo p" % (v, inv), backend=be)
    # field switch inside one interpreter (what importing backendbellman / backendbulletproofs after the base module
    # has been used amounts to): the same arguments must be inverted in the field then in effect
    if hasattr(mod, "set_modulus"):
        orders = curve_orders()
        vs = [1, 2, 3, 5, 7, -1, -2, 12345, p - 1, p + 1, (1 << 300) + 7] + [rnd.randrange(1, 1 << 200) for _ in range(20)]
        for name in ("bls12-381", "curve25519", "bn254", curve):
            q = orders[name]
            mod.set_modulus(q)
            if mod.get_modulus() != q:
                R.violation("set-modulus-ignored", "after set_modulus the backend reports %d" % mod.get_modulus(), backend=be)
            for v in vs:
                if v % q == 0:
                    continue
                R.count("inverses_checked_after_field_switch")
                R.case(cell="%s|inverse-after-switch|%s" % (be, name), key=(be, "inv-switch", name, v))
                try:
                    inv = mod.fieldinverse(v)
                except Exception as e:  # noqa
                    R.violation("inverse-raised", "fieldinverse(%d) raised %r after switching to %s" % (v, e, name), backend=be)
                    continue
                if (v * inv) % q != 1:
                    R.violation("inverse-wrong-after-field-switch", "after switching to %s fieldinverse(%d) is not the inverse modulo the field now in effect" % (name, v), backend=be)
        mod.set_modulus(p)
    if qap:
        import shutil
        shutil.rmtree(os.environ["PYSNARK_KEYDIR"], ignore_errors=True)
    return R.export()


def replay(path):
    print(open(path).read()[:3000])
    return 0
