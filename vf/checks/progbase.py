"""Driver shared by the checks that run on the generated-program workload (vf.progwork)."""
import json

from vf import common, progwork, shard


def run(prop, quick=(8, 40), thorough=(16, 500), extra=None, require=(), maxstmts=12):
    tier = common.tier()
    nshards, nprogs = quick if tier == "quick" else thorough
    jobs = []
    for s in range(nshards):
        job = dict(seed="%d/%s/%d" % (common.seed(), prop, s), nprogs=nprogs, props=[prop], maxstmts=maxstmts)
        if extra:
            job.update(extra)
        jobs.append(job)
    R = common.Run(prop, progwork.LEVEL[prop], progwork.RULES[prop])
    for job, res, err in shard.run_jobs("vf.progwork", "explore", jobs, timeout=1800 if tier == "quick" else 7200):
        if err:
            R.inconc("worker %s: %s" % (job["seed"], err))
            continue
        R.merge(res[prop])
    if prop == "C06":
        fam = [dict(seed="%d/C06/idx/%d" % (common.seed(), s), n=12 if tier == "quick" else 60) for s in range(2 if tier == "quick" else 8)]
        for job, res, err in shard.run_jobs("vf.progwork", "index_family", fam, timeout=900):
            if err:
                R.inconc("array index family: %s" % err[-300:])
            else:
                R.merge(res[prop])
    if prop in ("C01", "C04"):
        for job, res, err in shard.run_jobs("vf.progwork", "suite_under_monitors", [dict(props=[prop])], timeout=900):
            if err:
                R.inconc("repository test-suite under monitors: %s" % err[-300:])
            else:
                R.merge(res[prop])
        for job, res, err in shard.run_jobs("vf.progwork", "examples_under_monitors", [dict(props=[prop])], timeout=900):
            if err:
                R.inconc("repository examples under monitors: %s" % err[-300:])
            else:
                R.merge(res[prop])
    return R, R.finish(require_counters=require)


def replay(prop, path):
    """re-run the single recorded case and print what the monitors see"""
    from vf import boot
    rt = boot.attach()
    from vf.gen import prog as G
    from vf import r1cs
    d = json.load(open(path))
    det = d["detail"]
    print("replaying", d["mech"], "-", d["what"])
    print(det.get("src"))
    prog = G.Prog(det["src"], [], det.get("bl", 16), det.get("res", 8))
    neutral = boot.Neutral()
    for key in ("inputs", "inputs_a", "inputs_b"):
        if key in det:
            out = G.run_api(prog, det[key], neutral, modulus=int(det["p"]) if "p" in det else None,
                            ignore=bool(det.get("ignore") or det.get("ignore_" + key[-1], False)))
            bad = r1cs.unsatisfied(out.snap["constraints"], out.snap["values"], out.snap["p"])
            print(key, det[key], "-> exc:", repr(out.exc), "constraints:", len(out.snap["constraints"]), "unsatisfied:", bad[:5])
    return 0
