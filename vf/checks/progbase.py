"""Driver shared by the checks that run on the generated-program workload (vf.progwork)."""
import json

from vf import common, progwork, shard


def run(prop, quick=(8, 40), thorough=(16, 500), extra=None, require=(), maxstmts=12):
    tier = common.tier()
    nshards, nprogs = quick if tier == "quick" else thorough
    jobs = []
    for s in range(nshards):
        job = dict(seed="%d/%s/%d" % (common.seed(), prop, s), nprogs=nprogs, props=[prop], maxstmts=maxstmts)
        if extra:
            job.update(extra)
        jobs.append(job)
    if prop == "C01":
        from vf import boot
        for i, j in enumerate(jobs):    # a user may run any script under python -O: value checks written as `assert` would vanish
            if i % 2:
                j["pyflags"] = ["-O"]
    R = common.Run(prop, progwork.LEVEL[prop], progwork.RULES[prop])
    for job, res, err in shard.run_jobs("vf.progwork", "explore", jobs, timeout=1800 if tier == "quick" else 7200):
        if err:
            R.inconc("worker %s: %s" % (job["seed"], err))
            continue
        R.merge(res[prop])
    if prop == "C06":
        fam = [dict(seed="%d/C06/idx/%d" % (common.seed(), s), n=12 if tier == "quick" else 60) for s in range(2 if tier == "quick" else 8)]
        for job, res, err in shard.run_jobs("vf.progwork", "index_family", fam, timeout=900):
            if err:
                R.inconc("array index family: %s" % err[-300:])
            else:
                R.merge(res[prop])
    if prop == "C06":
        fam = [dict(seed="%d/C06/loop/%d" % (common.seed(), s), n=12 if tier == "quick" else 60) for s in range(2 if tier == "quick" else 8)]
        for job, res, err in shard.run_jobs("vf.progwork", "loop_family", fam, timeout=900):
            if err:
                R.inconc("secret loop bound family: %s" % err[-300:])
            else:
                R.merge(res[prop])
    if prop == "C06":
        # two runs of the same program in two interpreters (different hash seed, different secret inputs)
        npr = 60 if tier == "quick" else 600
        pairs = 2 if tier == "quick" else 6
        jobs2 = []
        for k in range(pairs):
            for vec, hs in ((0, "1"), (1, str(7 + k))):
                jobs2.append(dict(seed="%d/C06/two/%d" % (common.seed(), k), nprogs=npr, vec=vec, pair=k, env={"PYTHONHASHSEED": hs}, keep_sources=(vec == 0)))
        got = {}
        for job, res, err in shard.run_jobs("vf.progwork", "fingerprints", jobs2, timeout=1800):
            if err:
                R.inconc("two-interpreter family: %s" % err[-300:])
            else:
                got[(job["pair"], job["vec"])] = res
        for k in range(pairs):
            a, b = got.get((k, 0)), got.get((k, 1))
            if not a or not b:
                continue
            for i, (fa, fb) in enumerate(zip(a["fingerprints"], b["fingerprints"])):
                if fa is None or fb is None:
                    R.count("two_interpreter_pairs_raised")
                    continue
                R.count("two_interpreter_pairs_compared")
                R.count("trace_events_compared", fa[1])
                R.case(cell="two-interpreters|%s" % ("block" if i % 2 == 0 else "grammar"), key=("two", k, i), nontrivial=fa[1] > 0)
                if fa[0] != fb[0]:
                    R.violation("trace-differs-between-interpreters", "the same program emits different constraint systems in two interpreters (hash seeds, inputs %s vs %s; %d vs %d events)" % (
                        fa[2], fb[2], fa[1], fb[1]), src=(a.get("sources") or [None] * (i + 1))[i], inputs_a=fa[2], inputs_b=fb[2])
    if prop == "C01":
        fam = [dict(seed="%d/C01/handled/%d" % (common.seed(), s), n=2500 if tier == "quick" else 20000) for s in range(2 if tier == "quick" else 8)]
        for job, res, err in shard.run_jobs("vf.progwork", "handled_refusals", fam, timeout=1800):
            if err:
                R.inconc("handled-refusal family: %s" % err[-300:])
            else:
                R.merge(res[prop])
    if prop in ("C01", "C04"):
        fam = [dict(seed="%d/%s/foreign/%d" % (common.seed(), prop, s), props=[prop], n=3000) for s in range(2 if tier == "quick" else 8)]
        for job, res, err in shard.run_jobs("vf.progwork", "foreign_operands", fam, timeout=1800):
            if err:
                R.inconc("foreign-operand family: %s" % err[-300:])
            else:
                R.merge(res[prop])
        for job, res, err in shard.run_jobs("vf.progwork", "suite_under_monitors", [dict(props=[prop])], timeout=900):
            if err:
                R.inconc("repository test-suite under monitors: %s" % err[-300:])
            else:
                R.merge(res[prop])
        for job, res, err in shard.run_jobs("vf.progwork", "examples_under_monitors", [dict(props=[prop])], timeout=900):
            if err:
                R.inconc("repository examples under monitors: %s" % err[-300:])
            else:
                R.merge(res[prop])
    return R, R.finish(require_counters=require)


def replay(prop, path):
    """re-run the single recorded case and print what the monitors see"""
    from vf import boot
    rt = boot.attach()
    from vf.gen import prog as G
    from vf import r1cs
    d = json.load(open(path))
    det = d["detail"]
    print("replaying", d["mech"], "-", d["what"])
    print(det.get("src"))
    prog = G.Prog(det["src"], [], det.get("bl", 16), det.get("res", 8))
    neutral = boot.Neutral()
    for key in ("inputs", "inputs_a", "inputs_b"):
        if key in det:
            out = G.run_api(prog, det[key], neutral, modulus=int(det["p"]) if "p" in det else None,
                            ignore=bool(det.get("ignore") or det.get("ignore_" + key[-1], False)))
            bad = r1cs.unsatisfied(out.snap["constraints"], out.snap["values"], out.snap["p"])
            print(key, det[key], "-> exc:", repr(out.exc), "constraints:", len(out.snap["constraints"]), "unsatisfied:", bad[:5])
    return 0
