"""C16: bit decomposition and packing round-trip at the requested width (DESIGN.md 4/C16)."""
import json
import random

from vf import common, shard

PROP = "C16"
RULE = ("bits half: one case = (value, width n in 1..20, bitlength in {3,8,16}) for to_bits/from_bits/assert_positive: round-trip "
        "inside 0 <= v < 2^n, rejection outside, and - at small widths - the width enforced in-circuit with checks off (search); "
        "pack half: one case = one packer schema (PackBool / PackIntMod(m>=2) / PackList / PackRepeat nested <= 3) x one plain or "
        "secret value, in range or just outside; non-trivial = a round-trip was compared or a rejection observed; distinct by "
        "(kind, width/schema, value, bitlength); cell = kind x width-vs-bitlength class x value class")


def main():
    tier = common.tier()
    nshards, n = (16, 800) if tier == "quick" else (32, 8000)
    jobs = [dict(seed="%d/%s/%d" % (common.seed(), PROP, s), n=n) for s in range(nshards)]
    R = common.Run(PROP, "exploration", RULE)
    for job, res, err in shard.run_jobs("vf.checks.C16", "worker", jobs, timeout=3600, nproc=16):
        if err:
            R.inconc("worker %s: %s" % (job["seed"], err))
            continue
        R.merge(res)
    R.assumptions = ["degenerate schemas (modulus 1, empty lists, zero repetitions) are not generated (DESIGN.md 6.7)"]
    return R.finish(require_counters=("bits_roundtrips", "bits_rejections", "width_enforced_unsat", "width_enforced_sat",
                                      "pack_roundtrips_plain", "pack_roundtrips_secret", "pack_rejections"))


def gen_schema(rnd, depth=0):
    k = rnd.random()
    if depth >= 3 or k < 0.3:
        return ("bool",) if rnd.random() < 0.4 else ("intmod", rnd.choice([1, 2, 3, 4, 5, 7, 8, 9, 16, 17, 100, 255, 256, 1000, 2 ** 31 - 1, 2 ** 32 + 1, 2 ** 50 + 1, 2 ** 53 + 1,
                                                                                  2 ** 60 + 1, 2 ** 64 + 13, 2 ** 64 - 1, 2 ** 100 + 7]))
    if k < 0.7:
        return ("list", [gen_schema(rnd, depth + 1) for _ in range(rnd.randint(1, 3))])
    return ("repeat", gen_schema(rnd, depth + 1), rnd.randint(1, 3))


def no_trailing_zero_width(s):
    """PackIntMod(1) has no bits; the library looks at the bit at the field's position to tell secret from plain, so a zero-width
    field at the very end of the bit list has nothing to look at (DESIGN 6.7) - it is generated in front of other fields only"""
    if s[0] == "intmod":
        return ("intmod", 2) if s[1] == 1 else s
    if s[0] == "bool":
        return s
    if s[0] == "list":
        return ("list", s[1][:-1] + [no_trailing_zero_width(s[1][-1])])
    return ("repeat", no_trailing_zero_width(s[1]), s[2])


def no_zero_width(s):
    if s[0] == "intmod":
        return ("intmod", 2) if s[1] == 1 else s
    if s[0] == "bool":
        return s
    if s[0] == "list":
        return ("list", [no_zero_width(x) for x in s[1]])
    return ("repeat", no_zero_width(s[1]), s[2])


SHARED_PACKERS = [False]      # when set, equal leaf schemas are the SAME packer object (bound once to a name, used in several places)


def schema_src(s):
    if SHARED_PACKERS[0]:
        if s[0] == "bool":
            return "_pb"
        if s[0] == "intmod":
            return "_pm(%d)" % s[1]
    if s[0] == "bool":
        return "PackBool()"
    if s[0] == "intmod":
        return "PackIntMod(%d)" % s[1]
    if s[0] == "list":
        return "PackList([%s])" % ", ".join(schema_src(x) for x in s[1])
    return "PackRepeat(%s, %d)" % (schema_src(s[1]), s[2])


def gen_value(s, rnd):
    if s[0] == "bool":
        return rnd.randint(0, 1)
    if s[0] == "intmod":
        return rnd.choice([0, s[1] - 1, rnd.randrange(s[1])])
    if s[0] == "list":
        return [gen_value(x, rnd) for x in s[1]]
    return [gen_value(s[1], rnd) for _ in range(s[2])]


def leaves(s, v, out):
    if s[0] in ("bool", "intmod"):
        out.append((s, v))
    elif s[0] == "list":
        for x, y in zip(s[1], v):
            leaves(x, y, out)
    else:
        for y in v:
            leaves(s[1], y, out)
    return out


def value_src(s, v, secret, counter, bool_as):
    """source text rebuilding value v, leaves as PrivVal(..) when secret; secret == 'mixed' decides per leaf"""
    if secret == "mixed" and s[0] in ("bool", "intmod"):
        counter[0] += 1
        secret = (counter[0] * 7919 + counter[1]) % 3 != 0
    if s[0] == "bool":
        if not secret:
            return repr(v)
        return "%s(%d)" % (bool_as, v)
    if s[0] == "intmod":
        return ("PrivVal(%d)" % v) if secret else repr(v)
    if s[0] == "list":
        return "[%s]" % ", ".join(value_src(x, y, secret, counter, bool_as) for x, y in zip(s[1], v))
    return "[%s]" % ", ".join(value_src(s[1], y, secret, counter, bool_as) for y in v)


def plain(x):
    if isinstance(x, list):
        return [plain(y) for y in x]
    if isinstance(x, (int, bool)):
        return int(x)
    v = getattr(x, "value", None)
    if v is None and hasattr(x, "lc"):
        v = x.lc.value
    return v


def worker(job):
    from vf import boot, recorder, r1cs, capture, solve
    from vf.gen import prog as G
    rt = boot.attach()
    N = boot.Neutral()
    R = common.Run(PROP, "exploration", RULE)
    from vf.checks import C02
    st = solve.selftest() + C02.gadget_selftest()
    if st:
        R.inconc("solver self-test failed: %r" % (st[:2],))
        return R.export()
    moduli = [recorder.BN254, recorder.BLS381, recorder.C25519]
    rnd = random.Random(job["seed"])
    # ---------------- bits half ---------------------------------------------------------------------------
    for _ in range(job["n"]):
        bl = rnd.choice([3, 8, 16])
        n = rnd.choice([0] + list(range(1, 21)) * 2)
        p = rnd.choice(moduli)
        full = 1 << n
        v = rnd.choice([0, 1, full - 1, full, full + 1, -1, rnd.randrange(full), rnd.randrange(full), (1 << bl) - 1, 1 << bl, rnd.randint(-5, 2 * full)])
        wcls = "n<bl" if n < bl else ("n=bl" if n == bl else "n>bl")
        inr = 0 <= v < full
        form = rnd.choice(["to_bits", "assert_positive", "default"])
        if form == "default":
            n, full, inr = bl, 1 << bl, 0 <= v < (1 << bl)
            cont = rnd.choice(["bits", "bits", "iter(bits)", "(b for b in bits)", "tuple(bits)", "map(lambda b: b, bits)"])   # containers a caller may hand in
            src = "x = PrivVal(I[0])\nbits = x.to_bits()\nr = LinComb.from_bits(%s)\nnb = len(bits)\n" % cont
        elif form == "to_bits":
            src = "x = PrivVal(I[0])\nbits = x.to_bits(%d)\nr = LinComb.from_bits(bits)\nnb = len(bits)\n" % n
        else:
            # the width positionally or by keyword, with and without the caller's own message
            call = rnd.choice(["x.assert_positive(%d)", "x.assert_positive(%d)", "x.assert_positive(bits=%d)", "x.assert_positive(%d, 'too wide')",
                               "x.assert_positive(%d, err='too wide')", "x.assert_positive(err='too wide', bits=%d)"]) % n
            src = "x = PrivVal(I[0])\n%s\nr = x\nnb = %d\n" % (call, n)
        out = G.run_api(G.Prog(src, [], bl, 0), [v], N, modulus=p)
        key = (form, n, v, bl, src)
        cell = "%s|%s|%s" % (form, wcls, "in" if inr else "out")
        R.case(cell=cell, key=key)
        det = dict(src=src, inputs=[v], bl=bl, p=p, width=n)
        if inr:
            if out.exc is not None:
                R.violation("in-range-rejected:" + form, "%d is a valid %d-bit value but %s raised %s" % (v, n, form, repr(out.exc)[:100]), **det)
                continue
            R.count("bits_roundtrips")
            if plain(out.ns["r"]) != v or out.ns["nb"] != n:
                R.violation("bits-roundtrip-differs:" + form, "from_bits(to_bits(%d, %d)) = %r with %r bits" % (v, n, plain(out.ns["r"]), out.ns["nb"]), **det)
            if form != "assert_positive" and any(plain(b) != ((v >> i) & 1) for i, b in enumerate(out.ns["bits"])):
                R.violation("bits-wrong:" + form, "bit pattern of %d wrong" % v, **det)
            if out.snap["online_bad"]:
                R.violation("unsatisfied-constraint", "decomposition leaves an unsatisfied constraint", **det)
        else:
            if out.exc is None:
                R.violation("out-of-range-accepted:" + form, "%d is not a %d-bit non-negative value but %s accepted it" % (v, n, form), **det)
            else:
                R.count("bits_rejections")
        R.sample(dict(form=form, value=v, width=n, bitlength=bl, in_range=inr, raised=repr(out.exc)[:60] if out.exc else None), cap=5)
    # sequences of decompositions of the SAME object at different widths (anything cached on the object must not leak)
    for _ in range(max(20, job["n"] // 4)):
        bl = rnd.choice([8, 16])
        p = rnd.choice(moduli)
        w1, w2 = rnd.randint(0, 20), rnd.randint(0, 20)
        v = rnd.choice([(1 << w2) - 1, 1 << w2, (1 << w2) + 3, rnd.randrange(1 << max(w1, w2)), 0, 1])
        first = rnd.choice(["x.to_bits(%d)" % w1, "x.to_bits()", "x & x", "x >> 1", "~x", "x.assert_positive(%d)" % w1])
        second = rnd.choice(["bits = x.to_bits(%d)\nr = LinComb.from_bits(bits)\nnb = len(bits)" % w2, "x.assert_positive(%d)\nr = x\nnb = %d" % (w2, w2)])
        how = rnd.choice(["plain", "ignore", "false-guard"])
        if how == "plain":
            src = "x = PrivVal(I[0])\ntry:\n    %s\nexcept (AssertionError, ValueError):\n    pass\n%s\n" % (first, second)
        elif how == "ignore":
            src = ("import pysnark.runtime as _rt\nx = PrivVal(I[0])\n_rt.ignore_errors(True)\ntry:\n    %s\nfinally:\n    _rt.ignore_errors(False)\n%s\n" % (first, second))
        else:
            src = "x = PrivVal(I[0])\n@guarded(PrivValBool(0))\ndef _dead():\n    %s\n_dead()\n%s\n" % (first, second)
        out = G.run_api(G.Prog(src, [], bl, 0), [v], N, modulus=p)
        inr = 0 <= v < (1 << w2)
        R.case(cell="sequence|%s|%s" % ("narrower" if w2 < w1 else "wider-or-equal", "in" if inr else "out"), key=("seq", first, second, v, bl))
        det = dict(src=src, inputs=[v], bl=bl, p=p, width=w2)
        if inr:
            if out.exc is not None:
                R.violation("in-range-rejected:sequence", "%d is a valid %d-bit value but the second decomposition raised %s" % (v, w2, repr(out.exc)[:100]), **det)
            else:
                R.count("bits_roundtrips")
                if plain(out.ns["r"]) != v or out.ns["nb"] != w2:
                    R.violation("bits-roundtrip-differs:sequence", "second decomposition of %d at width %d gives %r with %r bits" % (v, w2, plain(out.ns["r"]), out.ns["nb"]), **det)
        else:
            if out.exc is None:
                R.violation("out-of-range-accepted:sequence", "%d is not a %d-bit value but the second decomposition on the same object accepted it" % (v, w2), **det)
            else:
                R.count("bits_rejections")
    # width actually enforced in-circuit (checks off), small widths
    for _ in range(max(20, job["n"] // 5)):
        bl = rnd.choice([2, 3, 4, 5])
        n = rnd.choice([w for w in (0, 1, 2, 3, 4, 5, 6) if w != bl] + [bl])
        p = rnd.choice(moduli)
        full = 1 << n
        v = rnd.choice([full - 1, full, full + 1, (1 << bl) - 1, 1 << bl, 0, rnd.randrange(2 * max(full, 1 << bl))])
        form = rnd.choice(["x.to_bits(%d)" % n, "x.assert_positive(%d)" % n])
        cap = capture.capture("x = PrivVal(I[0])\n", form, [], [v], N, bl, 0, p=p, ignore=True)
        if cap.exc is not None:
            R.count("width_capture_raised")
            continue
        res = solve.solve(cap.cons, cap.fixed, p, [], maxleaves=40000)
        sat = bool(res.values or res.free)
        if not sat and (res.inconclusive or res.budget_exceeded):
            R.count("solver_inconclusive")
            continue
        inr = 0 <= v < full
        R.case(cell="enforced|%s|%s" % ("n<bl" if n < bl else ("n=bl" if n == bl else "n>bl"), "in" if inr else "out"), key=("enf", form, v, bl))
        if inr and not sat:
            R.violation("width-enforced-too-narrow", "%s at bitlength %d: %d fits %d bits but the constraints are unsatisfiable" % (form, bl, v, n),
                        src="x = PrivVal(I[0])\n" + form, inputs=[v], bl=bl, p=p)
        elif not inr and sat:
            R.violation("width-enforced-too-wide", "%s at bitlength %d: %d does not fit %d bits but the constraints are satisfiable" % (form, bl, v, n),
                        src="x = PrivVal(I[0])\n" + form, inputs=[v], bl=bl, p=p)
        else:
            R.count("width_enforced_sat" if sat else "width_enforced_unsat")
    # ---------------- pack half ---------------------------------------------------------------------------
    for _ in range(job["n"]):
        s = no_trailing_zero_width(gen_schema(rnd))
        v = gen_value(s, rnd)
        bl = rnd.choice([8, 12, 16])
        p = rnd.choice(moduli)
        secret = rnd.choice([True, True, False, "mixed"])
        if secret is not False:
            s = no_zero_width(s)          # secret zero-width fields are not supported by the library at all (DESIGN 6.7)
            v = gen_value(s, rnd)
        bool_as = rnd.choice(["PrivVal", "PrivVal", "PrivValBool"])
        SHARED_PACKERS[0] = rnd.random() < 0.3
        ssrc = schema_src(s)
        if SHARED_PACKERS[0]:
            # one PackBool and one PackIntMod per modulus for the whole schema
            ssrc = ssrc  # (names resolved by the prelude below)
        SHARED_PACKERS[0], shared = False, SHARED_PACKERS[0]
        big = max([x[0][1] for x in leaves(s, v, []) if x[0][0] == "intmod"] + [2])
        if secret and big.bit_length() + 2 > bl:
            bl = big.bit_length() + 3      # the range check of unpack compares against the modulus at the global bitlength
        mode = rnd.random()
        lv = leaves(s, v, [])
        ints = [i for i, (ls, _) in enumerate(lv) if ls[0] == "intmod"]
        oob = None
        if mode < 0.25 and ints:
            # one integer leaf just outside its range
            which = rnd.choice(ints)
            m = lv[which][0][1]
            oob = rnd.choice([m, m + 1, -1] + ([(1 << (m - 1).bit_length()) - 1] if (1 << (m - 1).bit_length()) - 1 >= m else []))
            v = replace_leaf(s, v, which, oob)
        prelude = "_pb = PackBool()\n_pmc = {}\ndef _pm(m):\n    if m not in _pmc: _pmc[m] = PackIntMod(m)\n    return _pmc[m]\n" if shared else ""
        src = prelude + "P = %s\nx = %s\nbits = P.pack(x)\nnb = P.bitlen()\ny = P.unpack(bits, 0)\n" % (ssrc, value_src(s, v, secret, [0, rnd.randrange(100)], bool_as))
        if oob is None and secret is False and rnd.random() < 0.3:
            # values drawn by the schema's own random(): must be in range and round-trip
            src = prelude + "P = %s\nx = P.random()\nbits = P.pack(x)\nnb = P.bitlen()\ny = P.unpack(bits, 0)\nif y != x: raise ValueError((x, y))\n" % ssrc
            v = None
        out = G.run_api(G.Prog(src, [], bl, 0), [], N, modulus=p)
        key = (ssrc, repr(v), secret, bool_as, bl)
        cell = "pack|%s|%s|%s%s" % (s[0], "mixed" if secret == "mixed" else ("secret" if secret else "plain"), "oob" if oob is not None else "in", "|shared-packers" if shared else "")
        R.case(cell=cell, key=key)
        det = dict(src=src, inputs=[], bl=bl, p=p)
        if oob is None:
            if out.exc is not None:
                R.violation("pack-roundtrip-raised", "in-range %s value: %s" % ("secret" if secret else "plain", repr(out.exc)[:120]), **det)
                continue
            R.count("pack_roundtrips_secret" if secret else "pack_roundtrips_plain")
            if secret == "mixed":
                R.count("pack_roundtrips_mixed")
            if (v is not None and plain(out.ns["y"]) != plain_value(v)) or len(out.ns["bits"]) != out.ns["nb"]:
                R.violation("pack-roundtrip-differs", "unpack(pack(x)) = %r for x = %r (bits %d, bitlen %d)" % (
                    plain(out.ns["y"]), v, len(out.ns["bits"]), out.ns["nb"]), **det)
            if out.snap["online_bad"]:
                R.violation("unsatisfied-constraint", "packing leaves an unsatisfied constraint", **det)
        else:
            if out.exc is None:
                R.violation("pack-out-of-range-accepted", "%s value %d for PackIntMod(%d) accepted: unpack(pack(x)) = %r" % (
                    "secret" if secret else "plain", oob, lv[which][0][1], plain(out.ns["y"])), **det)
            else:
                R.count("pack_rejections")
        R.sample(dict(schema=ssrc, value=v, secret=secret, out_of_range=oob, raised=repr(out.exc)[:60] if out.exc else None), cap=5)
    # ---------------- unpack of bits the caller supplies (not produced by pack) ----------------------------------
    for _ in range(job["n"]):
        mod = rnd.choice([2, 3, 5, 6, 7, 10, 12, 13, 100, 255, 256, 1000])
        nb = (mod - 1).bit_length()
        enc = rnd.choice([rnd.randrange(mod), mod - 1, 0] + ([mod, rnd.randrange(mod, 1 << nb), (1 << nb) - 1] if (1 << nb) > mod else []))
        kind = rnd.choice(["PrivVal", "PrivValBool", "mixed-secret", "secret-then-plain", "plain-then-secret"])
        srcs = []
        nonbit = rnd.random() < 0.15 and kind in ("PrivVal", "secret-then-plain") and nb > 0
        nonbit_at = rnd.randrange(nb) if nonbit else -1
        enc0 = enc
        for ix in range(nb):
            b = (enc0 >> ix) & 1
            if ix == nonbit_at:
                # a plain secret wire used as a bit without being one: what counts is the value the bits add up to
                nb_val = rnd.choice([2, 5, 3, 4])
                enc += (nb_val - b) * (1 << ix)
                srcs.append("PrivVal(%d)" % nb_val)
                continue
            k = kind
            if kind == "mixed-secret":
                k = rnd.choice(["PrivVal", "PrivValBool"])
            elif kind == "secret-then-plain":
                k = rnd.choice(["PrivVal", "PrivValBool"]) if ix == 0 else rnd.choice(["plain", "PrivVal"])
            elif kind == "plain-then-secret":
                k = "plain" if ix == 0 and nb > 1 else rnd.choice(["PrivVal", "PrivValBool"])
            srcs.append(str(b) if k == "plain" else "%s(%d)" % (k, b))
        bl = max(8, mod.bit_length() + 3)
        src = "bits = [%s]\ny = PackIntMod(%d).unpack(bits, 0)\n" % (", ".join(srcs), mod)
        out = G.run_api(G.Prog(src, [], bl, 0), [], N, modulus=rnd.choice(moduli))
        R.case(cell="unpack-supplied-bits|%s|%s" % (kind, "oob" if enc >= mod else "in"), key=(src, bl))
        det = dict(src=src, inputs=[], bl=bl, p=out.snap["p"])
        first_secret = not srcs[0].isdigit()
        if 0 <= enc < mod:
            R.count("unpack_supplied_bits_in_range")
            if out.exc is not None:
                R.violation("unpack-in-range-raised", "bits encoding %d for PackIntMod(%d): %s" % (enc, mod, repr(out.exc)[:100]), **det)
            elif plain(out.ns["y"]) != enc:
                R.violation("unpack-differs", "bits encoding %d for PackIntMod(%d) unpacked to %r" % (enc, mod, plain(out.ns["y"])), **det)
        elif first_secret:
            # the library decides by the first bit whether the bits are secret (DESIGN 4/C16): then the bound must be enforced
            R.count("unpack_supplied_bits_out_of_range")
            if out.exc is None:
                R.violation("unpack-out-of-range-accepted", "secret bits (%s) encoding %d accepted by PackIntMod(%d).unpack" % (kind, enc, mod), **det)
    N.settings_drift()
    R.count("global_width_checks", 1)
    if N.drift:
        R.violation("global-width-changed-by-operation", "some packing / decomposition call left the global (bitlength, resolution) at %s, it was %s (%d such changes in this worker)" % (
            N.drift[0][1], N.drift[0][0], len(N.drift)), seed=job["seed"])
    return R.export()


def plain_value(v):
    if isinstance(v, list):
        return [plain_value(x) for x in v]
    return int(v)


def replace_leaf(s, v, which, newv):
    cnt = [0]

    def rec(s, v):
        if s[0] in ("bool", "intmod"):
            i = cnt[0]
            cnt[0] += 1
            return newv if i == which else v
        if s[0] == "list":
            return [rec(x, y) for x, y in zip(s[1], v)]
        return [rec(s[1], y) for y in v]
    return rec(s, v)


def replay(path):
    d = json.load(open(path))
    det = d["detail"]
    from vf import boot
    boot.attach()
    from vf.gen import prog as G
    N = boot.Neutral()
    out = G.run_api(G.Prog(det["src"], [], det["bl"], 0), det["inputs"], N, modulus=int(det["p"]))
    print(det["src"], det["inputs"], "->", repr(out.exc), {k: plain(out.ns[k]) for k in ("r", "y") if k in out.ns})
    return 0
