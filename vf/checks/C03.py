"""C03: assertions and declared types are enforced inside the circuit (DESIGN.md 4/C03).

Each case is executed three times: on the reference model (is the asserted relation true?), on the API with checks
on (is the call accepted?), and on the API with ignore_errors(True) (capture the constraints); the witness-space
search then decides whether the captured constraints are satisfiable with the operands fixed."""
import json
import random

from vf import common, shard

PROP = "C03"
RULE = ("one case = one assertion / type declaration on concrete operands (windows around every boundary, widths 1..6 vs "
        "bitlength 2..5); decided by reference relation x accepted? x satisfiable? ; non-trivial = the ignore-errors run "
        "emitted >=1 constraint and the search was conclusive; distinct by (template, expression, operands, bitlength, "
        "resolution); cell = template x bitlength x relation-true/false")

ASSERTS = [
    # tid, template (statement), uses fxp
    ("assert_lt_ss", "{i}.assert_lt({i})"), ("assert_lt_sc", "{i}.assert_lt({K})"),
    ("assert_le_ss", "{i}.assert_le({i})"), ("assert_le_sc", "{i}.assert_le({K})"),
    ("assert_gt_ss", "{i}.assert_gt({i})"), ("assert_gt_sc", "{i}.assert_gt({K})"),
    ("assert_ge_ss", "{i}.assert_ge({i})"), ("assert_ge_sc", "{i}.assert_ge({K})"),
    ("assert_eq_ss", "{i}.assert_eq({i})"), ("assert_eq_sc", "{i}.assert_eq({K})"),
    ("assert_ne_ss", "{i}.assert_ne({i})"), ("assert_ne_sc", "{i}.assert_ne({K})"),
    ("assert_lt_sf", "{i}.assert_lt({f})"), ("assert_ge_sf", "{i}.assert_ge({f})"), ("assert_eq_sf", "{i}.assert_eq({f})"),
    ("assert_le_sc_float", "{i}.assert_le({c})"), ("assert_ne_sf", "{i}.assert_ne({f})"), ("assert_gt_sf", "{i}.assert_gt({f})"),
    # the same object on both sides
    ("assert_lt_same", "(lambda t: t.assert_lt(t))({i})"), ("assert_gt_same", "(lambda t: t.assert_gt(t))({i})"),
    ("assert_ne_same", "(lambda t: t.assert_ne(t))({i})"), ("assert_le_same", "(lambda t: t.assert_le(t))({i})"),
    ("assert_eq_same", "(lambda t: t.assert_eq(t))({i})"), ("bassert_ne_same", "(lambda t: t.assert_ne(t))({b})"),
    ("fassert_gt_same", "(lambda t: t.assert_gt(t))({f})"), ("fassert_le_same", "(lambda t: t.assert_le(t))({f})"),
    ("assert_range_same", "(lambda t: t.assert_range(t, t))({i})"),
    ("assert_zero", "{i}.assert_zero()"), ("assert_zero_diff", "({i} - {i}).assert_zero()"),
    ("assert_nonzero", "{i}.assert_nonzero()"),
    ("assert_positive", "{i}.assert_positive()"), ("assert_positive_w", "{i}.assert_positive({w})"),
    ("to_bits", "{i}.to_bits()"), ("to_bits_w", "{i}.to_bits({w})"),
    # the same assertions with the caller's own message (positional and by keyword): only the text of the refusal may change
    ("assert_positive_w_msg", "{i}.assert_positive({w}, 'value too wide')"), ("assert_positive_w_errkw", "{i}.assert_positive({w}, err='value too wide')"),
    ("assert_positive_msg", "{i}.assert_positive(err='negative')"), ("assert_positive_bitskw", "{i}.assert_positive(bits={w})"),
    ("assert_lt_msg", "{i}.assert_lt({i}, 'not below')"), ("assert_le_msg", "{i}.assert_le({K}, err='above')"), ("assert_gt_msg", "{i}.assert_gt({i}, 'not above')"),
    ("assert_ge_msg", "{i}.assert_ge({K}, 'below')"), ("assert_eq_msg", "{i}.assert_eq({i}, 'differs')"), ("assert_ne_msg", "{i}.assert_ne({K}, err='equal')"),
    ("assert_zero_msg", "({i} - {i}).assert_zero('not zero')"), ("assert_nonzero_msg", "{i}.assert_nonzero(err='zero')"),
    ("assert_range_msg", "{i}.assert_range({K}, {K}, 'outside')"), ("bassert_eq_msg", "{b}.assert_eq({b}, 'bits differ')"), ("fassert_lt_msg", "{f}.assert_lt({f}, err='not below')"),
    ("assert_range_cc", "{i}.assert_range({K}, {K})"), ("assert_range_ss", "{i}.assert_range({i}, {i})"),
    ("lincombbool", "LinCombBool({i})"), ("lincombbool_sum", "LinCombBool({b} + {b})"),
    ("bool_and_int", "{b} & {i}"), ("bool_eq_int", "{b} == {i}"), ("bool_xor_int", "{b} ^ {i}"), ("bool_or_int", "{b} | {i}"),
    ("int_and_bool", "{i} & {b}"), ("bool_lt_int", "{b} < {i}"), ("bool_assert_eq_int", "{b}.assert_eq({i})"),
    ("bool_assert_ne_int", "{b}.assert_ne({i})"), ("bool_assert_lt_int", "{b}.assert_lt({i})"), ("bool_assert_le_int", "{b}.assert_le({i})"),
    ("bool_assert_gt_int", "{b}.assert_gt({i})"), ("bool_assert_ge_int", "{b}.assert_ge({i})"), ("bool_assert_le_K", "{b}.assert_le({K})"),
    ("bool_assert_ge_K", "{b}.assert_ge({K})"),
    ("bassert_eq", "{b}.assert_eq({b})"), ("bassert_ne", "{b}.assert_ne({b})"), ("bassert_eq_c", "{b}.assert_eq({B})"),
    ("bassert_lt", "{b}.assert_lt({b})"), ("bassert_ge", "{b}.assert_ge({b})"),
    ("bassert_zero", "{b}.assert_zero()"), ("bassert_nonzero", "{b}.assert_nonzero()"),
    ("fassert_lt", "{f}.assert_lt({f})"), ("fassert_le_c", "{f}.assert_le({c})"), ("fassert_gt", "{f}.assert_gt({f})"),
    ("fassert_ge_i", "{f}.assert_ge({i})"), ("fassert_eq", "{f}.assert_eq({f})"), ("fassert_ne_c", "{f}.assert_ne({c})"),
    ("fassert_gt_b", "{f}.assert_gt({b})"), ("fassert_le_b", "{f}.assert_le({b})"), ("fassert_eq_i", "{f}.assert_eq({i})"),
    ("fassert_lt_K", "{f}.assert_lt({K})"), ("fassert_ne_b", "{f}.assert_ne({b})"), ("fassert_range_iK", "{f}.assert_range({i}, {K})"),
    ("fassert_positive", "{f}.assert_positive()"), ("fassert_zero", "{f}.assert_zero()"),
    ("fassert_nonzero", "{f}.assert_nonzero()"), ("fassert_range", "{f}.assert_range({c}, {c})"),
    ("unpack_intmod", "PackIntMod({m}).unpack({i}.to_bits(({m} - 1).bit_length()), 0)"),
    ("pack_intmod", "PackIntMod({m}).pack({i})"),
    ("unpack_wires", "PackIntMod({m}).unpack([{i}, {i}, {i}][:({m} - 1).bit_length()], 0)"),
    ("unpack_wires_mixed", "PackIntMod({m}).unpack([{i}, {B}, {i}, 1][:({m} - 1).bit_length()], 0)"),
    ("unpack_wires_mixed2", "PackIntMod({m}).unpack([{i}, {i}, {B}, {B}][:({m} - 1).bit_length()], 0)"),
    ("unpack_list_mixed", "PackList([PackBool(), PackIntMod({m})]).unpack([1] + {i}.to_bits(({m} - 1).bit_length()), 0)"),
]
# fresh boolean declarations: the wire is allocated inside the operation, left unknown, and must be exactly {0,1}
DECLS = [("self_guard_decl", "t = PrivVal(I[0])\n@guarded(t)\ndef _b():\n    return LinCombBool(t)\nr = _b()"),
         ("self_guard_decl_not", "t = PrivVal(I[0])\n@guarded(t)\ndef _b():\n    return ~LinCombBool(t)\nr = _b()"),
         ("privvalbool", "r = PrivValBool(I[0])"), ("pubvalbool", "r = PubValBool(I[0])"),
         ("to_bits_bit", "r = PrivVal(I[0]).to_bits()[0]"), ("check_positive_bit", "r = PrivVal(I[0]).check_positive()"),
         ("eq_bit", "r = PrivVal(I[0]) == 1")]


def main():
    tier = common.tier()
    items = []
    for tid, tmpl in ASSERTS:
        for bl in ((2, 3, 4) if tier == "quick" else (1, 2, 3, 4, 5)):
            items.append(dict(tid=tid, bl=bl, n=(60 if tier == "quick" else 1500)))
    for tid, _ in DECLS:
        for bl in (2, 3):
            items.append(dict(tid=tid, bl=bl, n=2))
    common.rng(PROP, "plan").shuffle(items)
    nshards = 16 if tier == "quick" else 48
    jobs = [dict(seed="%d/%s/%d" % (common.seed(), PROP, s), items=items[s::nshards]) for s in range(nshards)]
    R = common.Run(PROP, "exploration", RULE)
    for job, res, err in shard.run_jobs("vf.checks.C03", "worker", jobs, timeout=3600, nproc=16):
        if err:
            R.inconc("worker %s: %s" % (job["seed"], err))
            continue
        R.merge(res)
    from vf import lazyimport
    lazyimport.run_family(R, ['constants'], label="C03")
    R.assumptions = ["relation table = vf.ref.model (Python-level meaning of each assertion; assert_range half-open as the run-time check and test_assert_range define it)",
                     "solver self-test as in C02; SAT verdicts are certified by concrete re-evaluation"]
    concl, inc = R.counters.get("conclusive", 0), R.counters.get("solver_inconclusive", 0)
    if inc > 0.02 * (concl + inc):
        R.inconc("%d of %d solver calls inconclusive" % (inc, concl + inc))
    return R.finish(require_counters=("conclusive", "selftest_ok", "relation_false_unsat", "relation_true_sat"))


def boundary_ints(bl, rnd):
    full = 1 << bl
    h = (1 << (bl - 1))
    base = [0, 1, 2, -1, -2, h - 1, h, h + 1, -h, -h - 1, full - 1, full, full + 1, -full, -full + 1, -full - 1]
    return base + [rnd.randint(-full - 2, full + 2) for _ in range(3)]


def make_case(tid, tmpl, bl, rnd):
    from vf import opcases
    res = rnd.choice([0, 1, 2]) if ("{f}" in tmpl or "{c}" in tmpl) else 0
    res = min(res, max(0, bl - 1))
    sl = opcases.slots(tmpl)
    ints = boundary_ints(bl, rnd)
    ins, cs = [], []
    if "w" in sl:
        # the width argument decides the boundary: aim operands at 2^w and at 2^bitlength, both sides
        w = rnd.choice([0, 1, 2, 3, 4, 5, 6])
        ints = [0, 1, -1, (1 << w) - 1, 1 << w, (1 << w) + 1, (1 << bl) - 1, 1 << bl, (1 << bl) + 1,
                rnd.randint(0, 1 << max(w, bl)), rnd.randint(0, 1 << max(w, bl))]
        sl = ["W" if s == "w" else s for s in sl]
    anchor = rnd.choice(ints)
    for s in sl:
        if s == "i":
            # operands cluster around each other so that both sides of every relation are hit
            v = anchor + rnd.choice([0, 0, 1, -1, 2, -2]) if rnd.random() < 0.6 else rnd.choice(ints)
            if "W" in sl:
                v = rnd.choice(ints)
            ins.append(v)
        elif s == "b":
            ins.append(rnd.randint(0, 1))
        elif s == "f":
            r = anchor + rnd.choice([0, 1, -1, 2, -2]) if rnd.random() < 0.6 else rnd.choice(ints)
            ins.append(r / (1 << res))
        elif s == "K":
            cs.append(anchor + rnd.choice([0, 0, 1, -1, 2, -2, 3]))
        elif s == "W":
            cs.append(w)
        elif s == "m":
            cs.append(rnd.choice([2, 3, 4, 5, 6, 7, 8, 9, 12, 16]))
        elif s == "c":
            r = anchor + rnd.choice([0, 1, -1, 2, -2])
            cs.append(repr(r / (1 << res)))
        elif s == "B":
            cs.append(rnd.choice(["0", "1", "True", "False"]))
    if tid in ("assert_range_cc", "assert_range_msg") and isinstance(cs[0], int) and cs[0] > cs[1]:
        cs[0], cs[1] = cs[1], cs[0]
    if tid == "unpack_list_mixed":
        cs = [cs[0], cs[0]]
        ins[0] = rnd.randint(0, (1 << (cs[0] - 1).bit_length()) - 1)
    if tid == "unpack_intmod":
        # same modulus in both slots; value below 2^bitlen so that the decomposition itself is valid
        cs = [cs[0], cs[0]]
        ins[0] = rnd.randint(0, (1 << (cs[0] - 1).bit_length()) - 1)
    if tid in ("unpack_wires_mixed", "unpack_wires_mixed2"):
        # a field whose bits are partly circuit wires and partly plain 0/1 integers
        cs = [rnd.choice([3, 5, 6, 7, 9, 11, 12, 13, 16]), rnd.choice(["0", "1"]), 0] if tid == "unpack_wires_mixed" else \
             [rnd.choice([3, 5, 6, 7, 9, 11, 12, 13, 16]), rnd.choice(["0", "1"]), rnd.choice(["0", "1"]), 0]
        cs[-1] = cs[0]
        ins = [rnd.choice([0, 1, 0, 1, 2, 3]) for _ in ins]
    if tid == "unpack_wires":
        # plain secret wires handed in as bits (they may not be bits): what is enforced is the value they add up to
        cs = [rnd.choice([2, 3, 4, 5, 6, 7, 8])] * 2
        ins = [rnd.choice([0, 1, 0, 1, 2, 3, 5]) for _ in ins]
    if tid == "pack_intmod":
        ins[0] = rnd.randint(-1, (1 << (cs[0] - 1).bit_length()) + 1)
    c = opcases.Case(tid, tmpl, bl, res, ins, cs, None)
    if tid == "unpack_list_mixed":
        m = cs[0]
        c.pre_src += "bits = [1] + x0.to_bits((%d - 1).bit_length())\n" % m
        c.op_src = "PackList([PackBool(), PackIntMod(%d)]).unpack(bits, 0)" % m
        c.expr = c.op_src
    if tid == "unpack_intmod":
        # decomposition belongs to the operands (fixed); the unpack is the operation
        m = cs[0]
        c.pre_src += "bits = x0.to_bits((%d - 1).bit_length())\n" % m
        c.op_src = "PackIntMod(%d).unpack(bits, 0)" % m
        c.expr = c.op_src
    return c


def worker(job):
    from vf import boot, capture, solve, recorder, opcases
    from vf.gen import prog as G
    from vf.ref import model
    rt = boot.attach()
    import pysnark.pack as pack
    N = boot.Neutral()
    R = common.Run(PROP, "exploration", RULE)
    from vf.checks import C02
    st = solve.selftest() + C02.gadget_selftest()
    if st:
        R.inconc("solver self-test failed: %r" % (st[:2],))
        return R.export()
    R.count("selftest_ok")
    extra_api = dict(PackIntMod=pack.PackIntMod, PackBool=pack.PackBool, PackList=pack.PackList, PackRepeat=pack.PackRepeat)
    tmpls = dict(ASSERTS)
    decls = dict(DECLS)
    moduli = [recorder.BN254, recorder.BLS381, recorder.C25519]
    for item in job["items"]:
        tid, bl = item["tid"], item["bl"]
        rnd = random.Random("%s/%s/%d" % (job["seed"], tid, bl))
        if tid in decls:
            for v in (0, 1):
                p = rnd.choice(moduli)
                cap = capture.capture("", decls[tid], ["r"], [v], N, bl, 0, p=p)
                R.count("solver_cases")
                if cap.exc is not None:
                    R.count("decl_raised")
                    continue
                res = solve.solve(cap.cons, cap.fixed, p, cap.result_lcs)
                sols = set(x[0] for x in res.values)
                if res.free or res.inconclusive or res.budget_exceeded:
                    if res.free:
                        R.violation("declared-boolean-unconstrained:" + tid, "%s: fresh boolean wire is free" % decls[tid], op_src=decls[tid], bl=bl, p=p)
                    else:
                        R.count("solver_inconclusive")
                    continue
                R.count("conclusive")
                want = {0, 1} if tid in ("privvalbool", "pubvalbool", "self_guard_decl", "self_guard_decl_not") else {v if tid != "eq_bit" else int(v == 1)}
                if tid == "to_bits_bit":
                    want = {v & 1}
                if tid == "check_positive_bit":
                    want = {1}
                R.case(cell="%s|bl%d" % (tid, bl), key=(tid, bl, v, p))
                if not sols <= {0, 1} or (tid in ("privvalbool", "pubvalbool") and sols != {0, 1}):   # (self-guard: the wire is the prover's, every choice must be a bit)
                    R.violation("declared-boolean-admits-non-boolean:" + tid, "%s admits wire values %s" % (decls[tid], sorted(sols)[:5]),
                                op_src=decls[tid], bl=bl, p=p)
            continue
        tmpl = tmpls[tid]
        for _ in range(item["n"]):
            c = make_case(tid, tmpl, bl, rnd)
            p = rnd.choice(moduli)
            judge(R, c, p, N, capture, solve, model, G, extra_api)
    return R.export()


def judge(R, c, p, N, capture, solve, model, G, extra_api):
    N.settings_drift()
    d0 = len(N.drift)
    # (1) the relation, from the reference model
    prog = G.Prog(c.pre_src + c.op_src, [], c.bl, c.res)
    ref = G.run_ref(prog, c.inputs, extra=ref_extra())
    if ref.exc is not None and not isinstance(ref.exc, model.MustRaise):
        R.count("model_not_applicable:" + type(ref.exc).__name__)
        return
    relation = ref.exc is None
    in_domain = not ref.flags
    # (2) accepted with checks on?
    G_api = capture.capture(c.pre_src, c.op_src, [], c.inputs, N, c.bl, c.res, p=p)
    if G_api.phase == "pre" and G_api.exc is not None:
        R.count("operands_rejected")
        return
    accepted = G_api.exc is None
    # (3) constraints with checks off
    cap = capture_api(capture, c, N, p, extra_api)
    R.count("solver_cases")
    if cap.exc is not None:
        # the library refuses outright even in ignore-errors mode: nothing reaches the circuit
        R.count("refused_in_ignore_mode:" + type(cap.exc).__name__)
        N.settings_drift()
        if len(N.drift) > d0:
            exp, now = N.drift[d0]
            R.violation("global-width-changed-by-operation:" + c.tid, "%s on %s (refused) left the global (bitlength, resolution) at %s, it was %s" % (c.expr, c.inputs, now, exp),
                        case=c.describe(), pre_src=c.pre_src, op_src=c.op_src, p=p)
        if relation and accepted:
            R.violation("accepts-checked-refuses-unchecked:" + c.tid, "%s accepted with checks on but raises %r with checks off" % (c.expr, cap.exc),
                        case=c.describe(), p=p)
        return
    N.settings_drift()
    if len(N.drift) > d0:
        exp, now = N.drift[d0]
        R.case(cell="%s|bl%d|settings" % (c.tid, c.bl), key=c.key() + (p, "drift"))
        R.violation("global-width-changed-by-operation:" + c.tid, "%s on %s left the global (bitlength, resolution) at %s, it was %s: later default-width assertions enforce another width than the one set" % (
            c.expr, c.inputs, now, exp), case=c.describe(), pre_src=c.pre_src, op_src=c.op_src, p=p)
    R.count("global_widths_checked_after_operation")
    res = solve.solve(cap.cons, cap.fixed, p, [], maxleaves=60000)
    sat = bool(res.values) or bool(res.free)
    if not sat and (res.inconclusive or res.budget_exceeded):
        R.count("solver_inconclusive")
        return
    R.count("conclusive")
    R.count("solver_leaves", res.leaves + res.dead)
    R.case(cell="%s|bl%d|%s" % (c.tid, c.bl, "true" if relation else "false"), key=c.key() + (p,), nontrivial=len(cap.cons) > 0)
    R.sample(dict(case=c.describe(), relation=relation, accepted=accepted, satisfiable=sat, constraints=len(cap.cons)), cap=6)
    det = dict(case=c.describe(), pre_src=c.pre_src, op_src=c.op_src, p=p, relation=relation, accepted=accepted, satisfiable=sat,
               flags=ref.flags[:2], exc=repr(G_api.exc)[:200])
    if relation and accepted:
        # the same true assertion with the user's ignore_errors(True) in effect: the witness the library itself
        # computed must still satisfy what it emitted (checks off changes what is *checked*, not what is proved)
        R.count("honest_witness_unchecked_evaluated")
        if not cap.satisfied:
            R.violation("true-accepted-unchecked-witness-unsat:" + c.tid,
                        "%s on %s: relation true and accepted with checks on, but with checks off the library's own witness violates the emitted constraints"
                        % (c.expr, c.inputs), **det)
    if relation:
        if accepted and not sat:
            R.violation("true-accepted-unsat:" + c.tid, "%s on %s: relation true, call accepted, constraints unsatisfiable" % (c.expr, c.inputs), **det)
        elif accepted:
            R.count("relation_true_sat")
        else:
            R.count("relation_true_rejected" + ("" if not in_domain else "_in_domain"))
            if in_domain and not sat and c.tid.startswith(("b", "bool_")):
                # boolean operands have no width question: a true relation between bits that is refused with checks on *and* cannot be
                # proven with checks off is enforced as another relation than the one asserted
                R.violation("true-relation-between-bits-unprovable:" + c.tid, "%s on %s: the relation is true, the call is refused and, with checks off, the constraints are unsatisfiable" % (c.expr, c.inputs), **det)
    else:
        if accepted:
            R.violation("false-accepted:" + c.tid, "%s on %s: relation false but the run-time check accepts" % (c.expr, c.inputs), **det)
        if sat:
            R.violation("false-satisfiable:" + c.tid, "%s on %s: relation false but the emitted constraints are satisfiable" % (c.expr, c.inputs), **det)
        if not accepted and not sat:
            R.count("relation_false_unsat")


def capture_api(capture, c, N, p, extra_api):
    """ignore-errors capture; PackIntMod etc. must be visible to the generated source"""
    from vf.gen import prog as G
    orig = G.api_names

    def names():
        d = orig()
        d.update(extra_api)
        return d
    G.api_names = names
    try:
        return capture.capture(c.pre_src, c.op_src, [], c.inputs, N, c.bl, c.res, p=p, ignore=True)
    finally:
        G.api_names = orig


def ref_extra():
    from vf.ref import packmodel
    return dict(PackIntMod=packmodel.PackIntMod, PackBool=packmodel.PackBool, PackList=packmodel.PackList,
                PackRepeat=packmodel.PackRepeat)


def replay(path):
    d = json.load(open(path))
    print(json.dumps(d, indent=1)[:3000])
    return 0
