"""C19: the backend in use is the one the configuration names (DESIGN.md 4/C19).

One fresh interpreter per configuration (pre-imported backend modules x PYSNARK_BACKEND value x which optional
dependencies are loadable).  The probe script reports runtime.backend_name, the module in effect, its modulus and its
interface, runs a smoke program and exits; the harness compares with the three-stage rule restated here."""
import itertools
import json
import os
import shutil
import subprocess
import tempfile

from vf import common, shard, boot

PROP = "C19"
RULE = ("one case = one interpreter with a configuration (pre-import subset of size <= 2 of the 8 registry modules, PYSNARK_BACKEND in "
        "{8 known names, an unknown name, unset}, loadability of flatbuffers / qaptools executables / libsnark stand-in); the selected "
        "name, module, field and interface are compared with the three-stage rule; non-trivial = the probe produced a report or a "
        "loud failure that was judged; distinct by configuration; cell = stage that decides x environment class x loadability")

REGISTRY = [
    ("libsnark", "pysnark.libsnark.backend"), ("libsnarkgg", "pysnark.libsnark.backendgg"), ("qaptools", "pysnark.qaptools.backend"),
    ("snarkjs", "pysnark.snarkjsbackend"), ("zkinterface", "pysnark.zkinterface.backend"), ("zkifbellman", "pysnark.zkinterface.backendbellman"),
    ("zkifbulletproofs", "pysnark.zkinterface.backendbulletproofs"), ("nobackend", "pysnark.nobackend"),
]
NAME2MOD = dict(REGISTRY)
BN, BLS, ED = (21888242871839275222246405745257275088548364400416034343698204186575808495617,
               52435875175126190479447740508185965837690552500527637822603658699938581184513,
               7237005577332262213973186563042994240857116359379907606001950938285454250989)
FIELD = {"libsnark": BN, "libsnarkgg": BN, "qaptools": BN, "snarkjs": BN, "zkinterface": BN, "zkifbellman": BLS, "zkifbulletproofs": ED, "nobackend": None}
NEEDS = {"libsnark": "libsnark", "libsnarkgg": "libsnark", "qaptools": "qaptools", "zkinterface": "flatbuffers", "zkifbellman": "flatbuffers",
         "zkifbulletproofs": "flatbuffers", "snarkjs": None, "nobackend": None}
# importing a derived backend also imports its base module
IMPLIES = {"libsnarkgg": ["libsnark"], "zkifbellman": ["zkinterface"], "zkifbulletproofs": ["zkinterface"]}
INTERFACE = ["privval", "pubval", "zero", "one", "fieldinverse", "get_modulus", "add_constraint", "prove"]

PROBE = r'''
import json, sys, os
if %(ipython_running)r:
    import builtins
    builtins.get_ipython = lambda: object()
for m in %(blocked)r:
    sys.modules[m] = None
report = dict(preimport_errors=[])
if %(env_in_script)r is not None:
    # the script chooses the backend itself, after the package (or one of its helper modules) has been imported already
    how, name = %(env_in_script)r
    if how == "after_package":
        import pysnark
    elif how == "after_helper":
        import pysnark.gmpy
    os.environ["PYSNARK_BACKEND"] = name
for m in %(pre)r:
    try:
        __import__(m)
    except BaseException as e:
        report["preimport_errors"].append([m, repr(e)[:200]])
if %(falsy_backend)r:
    import types
    import pysnark.nobackend as _nb
    class _Falsy(types.ModuleType):
        def __len__(self): return 0                  # e.g. "number of constraints recorded so far"
    _fb = _Falsy("pysnark.nobackend")
    _fb.__dict__.update({k: v for k, v in vars(_nb).items() if not k.startswith("__")})
    sys.modules["pysnark.nobackend"] = _fb
import pysnark.runtime as rt
report["name"] = rt.backend_name
report["falsy_object_used"] = (rt.backend is sys.modules.get("pysnark.nobackend")) if %(falsy_backend)r else None
report["module"] = getattr(rt.backend, "__name__", None)
_lb = sys.modules.get("pysnark.libsnark.backend")
report["use_groth"] = getattr(_lb, "use_groth", None)
report["interface_missing"] = [f for f in %(iface)r if not callable(getattr(rt.backend, f, None))]
try:
    report["modulus"] = rt.backend.get_modulus()
except BaseException as e:
    report["modulus"] = repr(e)
# smoke program touching every interface function
try:
    from pysnark.runtime import PrivVal, PubVal, LinComb
    a = PrivVal(3); b = PubVal(4); c = a * b; d = (c + 1 - b) * 2; z = (a - a).check_zero(); (LinComb.ZERO + c - c).assert_zero()
    inv = rt.backend.fieldinverse(5)
    n1 = -a; n2 = n1 * 3 + n1; n3 = -(n2 - b) * 2; n4 = (5 - a) * (-b) - (-c); n5 = -(-n4) + 0
    # the backend's own linear-combination objects are closed under + - * (by a scalar) and negation, two levels deep
    _l = [rt.backend.privval(3), rt.backend.pubval(4), rt.backend.one(), rt.backend.zero()]
    for _round in range(2):
        _l = [x + y for x in _l[:4] for y in _l[:4]][:4] + [x - y for x in _l[:4] for y in _l[:4]][:4] + [x * 3 for x in _l[:4]] + [-x for x in _l[:4]]
        if any(isinstance(x, type) or x is None for x in _l):
            raise TypeError("an operator on the backend's linear combinations returned %%r" %% ([x for x in _l if isinstance(x, type) or x is None][0],))
    report["smoke"] = "ok"
    report["inverse_ok"] = (report["module"] == "pysnark.nobackend") or (5 * inv) %% rt.backend.get_modulus() == 1
except BaseException as e:
    report["smoke"] = repr(e)[:200]
if %(autoprove_off)r:
    rt.autoprove = False
json.dump(report, open("report.json", "w"))
'''


def expected(pre, envname, loadable):
    """the three-stage rule. returns dict(kind='select', names={...}) | dict(kind='fail') , plus diag flag"""
    pre_names = [n for n, m in REGISTRY if m in pre]
    if loadable.get("falsy_backend"):
        pre_names = ["nobackend"] + [n for n in pre_names if n != "nobackend"]     # the script itself puts a backend object there
    blocked = set(loadable.get("blocked") or [])     # sys.modules[name] = None: the module cannot be imported, and it was not imported
    loadable = {k: (v is True) for k, v in loadable.items()}

    def can(n):
        return (NAME2MOD[n] not in blocked and all(NAME2MOD[b] not in blocked for b in IMPLIES.get(n, []))
                and (NEEDS[n] is None or loadable[NEEDS[n]]))
    pre_loaded = []
    for n in pre_names:
        if can(n):
            pre_loaded.append(n)
    if pre_loaded:
        # derived pre-imports drag their base in; the derived one is the backend in effect
        cands = set(pre_loaded)
        for n in pre_loaded:
            for base in IMPLIES.get(n, []):
                if base not in pre_names:
                    cands.discard(base)
        return dict(kind="select", names=cands, stage=1, diag=False)
    if envname is not None and envname in NAME2MOD:
        if can(envname):
            return dict(kind="select", names={envname}, stage=2, diag=False)
        return dict(kind="fail", stage=2, diag=False)
    diag = envname is not None
    if loadable.get("ipython_running") and can("nobackend"):
        # an interactive session (get_ipython is a builtin): no proof is wanted, nobackend - but only once pre-imports and the
        # environment variable have had their say
        return dict(kind="select", names={"nobackend"}, stage=3, diag=diag)
    for n, m in REGISTRY:
        if can(n):
            return dict(kind="select", names={n}, stage=3, diag=diag)
    return dict(kind="fail", stage=3, diag=diag)


def configurations(tier):
    mods = [m for _, m in REGISTRY]
    pres = [()] + [(m,) for m in mods]
    pairs = list(itertools.permutations(mods, 2))      # both import orders
    # unknown names include proper substrings / superstrings of known ones
    envs = [None] + [n for n, _ in REGISTRY] + ["nosuchbackend", "zkif", "js", "snark", "backend", "qaptools2", "Snarkjs", "NoBackend", "ZKINTERFACE", "", " snarkjs", "pysnark.nobackend", "pysnark.snarkjsbackend", "nobackend ", "pysnark.zkinterface.backend"]
    loads = [dict(flatbuffers=f, qaptools=q, libsnark=l) for f in (True, False) for q in (True, False) for l in (True, False)]
    out = []
    if tier == "quick":
        rnd = common.rng(PROP, "cfg")
        base = dict(flatbuffers=True, qaptools=False, libsnark=False)
        for pre in pres:
            for env in envs:
                out.append((pre, env, base))
        for pre in rnd.sample(pairs, 8):
            out.append((pre, rnd.choice(envs), base))
        for ld in loads:
            for env in (None, "qaptools", "zkifbellman", "libsnarkgg", "libsnark", "nosuchbackend", "zkif", "lib"):
                out.append(((), env, ld))
        for m in mods:
            out.append(((m,), None, rnd.choice(loads)))
    else:
        for pre in pres + pairs:
            for env in envs:
                for ld in loads:
                    out.append((pre, env, ld))
    # an installed but incompatible libsnark (its import raises AttributeError): auto-detection moves on, naming it fails loudly
    for env in (None, "nosuchbackend", "libsnark", "libsnarkgg", "snarkjs"):
        for fb in (True, False):
            out.append(((), env, dict(flatbuffers=fb, qaptools=False, libsnark="broken")))
    for kind in ("oserror", "bare"):
        for env in (None, "nosuchbackend", "libsnark", "snarkjs"):
            out.append(((), env, dict(flatbuffers=True, qaptools=False, libsnark=kind)))
    # IPython installed but not running must change nothing (a few stage-3 / stage-2 configurations)
    for env in (None, "nosuchbackend", "snarkjs"):
        for ldb in (dict(flatbuffers=True, qaptools=False, libsnark=False), dict(flatbuffers=False, qaptools=True, libsnark=False)):
            out.append(((), env, dict(ldb, ipython=True)))
    # backend modules blocked the Python way (sys.modules[name] = None): not pre-imported, not importable; everything else as usual
    for blk in (["pysnark.libsnark.backend"], ["pysnark.snarkjsbackend"], ["pysnark.libsnark.backend", "pysnark.qaptools.backend"],
                ["pysnark.zkinterface.backend"], ["pysnark.nobackend"]):
        for env in (None, "snarkjs", "nobackend", "zkinterface", "zkifbellman", "nosuchbackend", "libsnark"):
            out.append(((), env, dict(flatbuffers=True, qaptools=False, libsnark=False, blocked=blk)))
    for env in (None, "snarkjs", "nosuchbackend"):
        out.append(((), env, dict(flatbuffers=True, qaptools=False, libsnark=False, falsy_backend=True)))
    # inside a running IPython session (get_ipython is a builtin)
    for env in (None, "snarkjs", "zkinterface", "nobackend", "nosuchbackend", "qaptools"):
        for pre in ((), ("pysnark.snarkjsbackend",)):
            out.append((pre, env, dict(flatbuffers=True, qaptools=False, libsnark=False, ipython_running=True)))
    seen, uniq = set(), []
    for pre, env, ld in out:
        k = (pre, env, tuple(sorted((a, str(b)) for a, b in ld.items())))
        if k not in seen:
            seen.add(k)
            uniq.append((pre, env, ld))
    return uniq


def main():
    tier = common.tier()
    cfgs = configurations(tier)
    if tier != "quick":
        R_exhaustive = True       # the whole matrix (pre-import sets of size <= 2 x environment values x loadability) is enumerated
    nshards = 16
    jobs = [dict(seed="%d/%s/%d" % (common.seed(), PROP, s), cfgs=[[list(p), e, ld] for p, e, ld in cfgs[s::nshards]]) for s in range(nshards)]
    R = common.Run(PROP, "exploration", RULE)
    for job, res, err in shard.run_jobs("vf.checks.C19", "worker", jobs, timeout=3600, nproc=16):
        if err:
            R.inconc("worker %s: %s" % (job["seed"], err))
            continue
        R.merge(res)
    R.extra["configurations"] = len(cfgs)
    R.extra["exhaustive"] = tier != "quick"
    R.assumptions = ["the native libsnark wheel is absent: a stand-in module makes the two libsnark names loadable so that only their *selection* is exercised",
                     "flatbuffers is a Builder stand-in; qaptools executables are failing stubs"]
    return R.finish(require_counters=("stage1_judged", "stage2_judged", "stage3_judged", "loud_failures_judged", "unknown_name_diagnosed", "smoke_ok"))


def run_probe(pre, env, ld, wd, autoprove_off=False, qap_on_path=False, env_how=None):
    shims = [s for s in ("flatbuffers", "libsnark") if ld[s] is True]
    if ld.get("libsnark") in ("broken", "oserror", "bare"):
        shims.append("libsnark_" + ld["libsnark"])   # installed but unusable: its import raises AttributeError / OSError(errno, text) / a bare ImportError
    if ld.get("ipython"):
        shims.append("ipython")        # IPython importable, but the script is a plain script (no get_ipython in builtins)
    extra = {}
    env_in_script = None
    if env is not None and env_how:
        env_in_script = (env_how, env)
    elif env is not None:
        extra["PYSNARK_BACKEND"] = env
    if qap_on_path:
        # the documented alternative set-up: QAPTOOLS_BIN unset, the executables (if installed at all) found through PATH
        if ld["qaptools"]:
            extra["PATH"] = os.path.join(boot.SHIMS, "qaptools_bin") + os.pathsep + os.environ.get("PATH", "")
    else:
        extra["QAPTOOLS_BIN"] = os.path.join(boot.SHIMS, "qaptools_bin") if ld["qaptools"] else os.path.join(wd, "no-such-dir")
    extra["PYSNARK_KEYDIR"] = "keys"
    os.makedirs(os.path.join(wd, "keys"), exist_ok=True)
    open(os.path.join(wd, "probe.py"), "w").write(PROBE % dict(env_in_script=env_in_script, pre=list(pre), iface=INTERFACE, autoprove_off=autoprove_off, blocked=list(ld.get("blocked") or []), ipython_running=bool(ld.get("ipython_running")), falsy_backend=bool(ld.get("falsy_backend"))))
    pr = subprocess.run([boot.PY, "probe.py"], cwd=wd, env=boot.child_env(extra, shims=shims), stdout=subprocess.PIPE, stderr=subprocess.PIPE, timeout=120)
    rep = None
    if os.path.exists(os.path.join(wd, "report.json")):
        rep = json.load(open(os.path.join(wd, "report.json")))
    return pr.returncode, pr.stdout.decode(errors="replace"), pr.stderr.decode(errors="replace"), rep


def worker(job):
    R = common.Run(PROP, "exploration", RULE)
    home = os.getcwd()
    for n, (pre, env, ld) in enumerate(job["cfgs"]):
        wd = tempfile.mkdtemp(prefix="c19-", dir=home)
        try:
            off = n % 3 == 0
            env_how = [None, None, "first", "after_package", "after_helper"][n % 5] if env is not None else None
            if env_how:
                R.count("backend_named_by_the_script_itself:" + env_how)
            rc, out, err, rep = run_probe(pre, env, ld, wd, autoprove_off=off, qap_on_path=(n % 4 == 1), env_how=env_how)
            if n % 4 == 1:
                R.count("qaptools_located_through_PATH")
        finally:
            shutil.rmtree(wd, ignore_errors=True)
        exp = expected(pre, env, ld)
        envcls = "unset" if env is None else ("known" if env in NAME2MOD else "unknown")
        ldcls = "".join(k[0] for k in sorted(ld) if ld[k] is True and k not in ("ipython", "ipython_running", "falsy_backend")) or "none"
        if ld.get("libsnark") in ("broken", "oserror", "bare"):
            ldcls += "+libsnark-" + ld["libsnark"]
        if ld.get("ipython"):
            ldcls += "+ipython-installed"
        if ld.get("falsy_backend"):
            ldcls += "+falsy-backend-object"
        if ld.get("ipython_running"):
            ldcls += "+ipython-running"
        if ld.get("blocked"):
            ldcls += "+blocked:" + ",".join(m.split(".")[-2 if m.endswith(".backend") else -1] for m in ld["blocked"])
        cell = "stage%d|env-%s|load-%s|pre%d" % (exp["stage"], envcls, ldcls, len(pre))
        det = dict(preimport=pre, env=env, env_how=env_how, loadable=ld, qap_on_path=(n % 4 == 1), exit_status=rc, report=rep, stdout_tail=out[-300:], stderr_tail=err[-400:], expected=dict(exp, names=sorted(exp.get("names", []))))
        R.case(cell=cell, key=(tuple(pre), env, ldcls))
        R.sample(dict(preimport=pre, env=env, loadable=ld, selected=rep and rep.get("name"), module=rep and rep.get("module"), exit_status=rc), cap=6)
        if exp["kind"] == "fail":
            R.count("loud_failures_judged")
            if rep is not None or rc == 0:
                R.violation("silent-fallback-for-unloadable-backend", "PYSNARK_BACKEND=%s cannot be loaded but the run selected %s (exit status %s)" % (
                    env, rep and rep.get("name"), rc), **det)
            elif "Traceback" not in err:
                R.violation("unloadable-backend-without-diagnostic", "failed without naming the problem", **det)
            continue
        if rep is None:
            R.violation("probe-crashed", "no report although a backend should have been selected (exit status %s): %s" % (rc, err.strip().splitlines()[-1][:150] if err.strip() else ""), **det)
            continue
        R.count("stage%d_judged" % exp["stage"])
        name, module = rep["name"], rep["module"]
        if name not in exp["names"]:
            R.violation(classify_name(pre, name, exp), "selected %r, the three-stage rule gives %s" % (name, sorted(exp["names"])), **det)
        elif NAME2MOD.get(name) != module:
            R.violation("name-and-module-disagree", "backend_name %r but constraints go to module %r" % (name, module), **det)
        elif FIELD[name] is not None and rep["modulus"] != FIELD[name]:
            siblings = [n for n, m in REGISTRY if m in pre and n in IMPLIES and IMPLIES[n] == IMPLIES.get(name)]
            mech = "two-derived-backends-of-one-base-preimported" if len(siblings) >= 2 and rep["modulus"] in [FIELD[n] for n in siblings] else "name-and-field-disagree"
            R.violation(mech, "backend_name %r but the module works modulo %s (pre-imported: %s)" % (name, rep["modulus"], [m.split(".")[-1] for m in pre]), **det)
        if name in ("libsnark", "libsnarkgg") and rep.get("use_groth") is not (name == "libsnarkgg"):
            R.violation("name-and-proof-system-disagree", "backend_name %r but the libsnark backend's use_groth flag is %r" % (name, rep.get("use_groth")), **det)
        if ld.get("falsy_backend") and rep.get("falsy_object_used") is not True:
            R.violation("preimported-backend-object-ignored", "the script registered its own backend object (one that is falsy) before importing the runtime; it is not the backend in use", **det)
        if rep["interface_missing"]:
            R.violation("interface-incomplete", "selected backend lacks %s" % rep["interface_missing"], **det)
        if rep["smoke"] != "ok":
            R.violation("smoke-program-failed", "smoke program on the selected backend: %s" % rep["smoke"], **det)
        else:
            R.count("smoke_ok")
        if rep.get("inverse_ok") is False:
            R.violation("inverse-wrong", "fieldinverse of the selected backend is not an inverse modulo its modulus", **det)
        if exp["diag"]:
            if "unknown backend" in out or "unknown backend" in err:
                R.count("unknown_name_diagnosed")
            else:
                R.violation("unknown-name-not-reported", "PYSNARK_BACKEND=%s is unknown but no diagnostic was printed" % env, **det)
        libs = name in ("libsnark", "libsnarkgg")
        if not libs:
            if rc != 0 or "Traceback" in err or "Exception ignored" in err:
                R.violation("exit-with-selected-backend-fails", "exit status %s / traceback at exit with autoprove %s" % (rc, "off" if off else "on"), **det)
    return R.export()


def classify_name(pre, name, exp):
    derived = [n for n, m in REGISTRY if m in pre and n in IMPLIES]
    if derived and name in [b for d in derived for b in IMPLIES[d]]:
        return "derived-backend-preimport-reports-base-name"
    return "wrong-backend-selected"


def replay(path):
    d = json.load(open(path))
    det = d["detail"]
    wd = tempfile.mkdtemp(prefix="c19replay-")
    try:
        print(run_probe(det["preimport"], det["env"], det["loadable"], wd, qap_on_path=bool(det.get("qap_on_path")), env_how=det.get("env_how")))
    finally:
        shutil.rmtree(wd, ignore_errors=True)
    return 0
