"""C15: secret-index array access reads and writes exactly one element (DESIGN.md 4/C15).

Differential against Python lists (reference RArray) over sequences of reads/writes on 1-D and 2-D arrays holding
constants and secrets; out-of-range indices must raise and - with checks off - be unprovable (witness-space search);
the canonical trace must not depend on the index values; read results must be unique (search)."""
import json
import random

from vf import common, shard

PROP = "C15"
RULE = ("one case = one array program (shape 1..6 or up to 4x4, contents constant/secret/mixed, 1..8 reads/writes with secret "
        "indices, a[i][j] and a[i,j] forms) on one index vector, compared element-wise with the list model; non-trivial = >=1 "
        "secret-index access executed and compared; distinct by (source, inputs); cell = shape class x op kinds x index class "
        "(in range / out of range / checks off)")


def gen_program(rnd):
    two_d = rnd.random() < 0.4
    lines, inputs, idx_slots = [], [], []

    def inp(v, ctor="PrivVal"):
        inputs.append(v)
        lines.append("x%d = %s(I[%d])" % (len(inputs) - 1, ctor, len(inputs) - 1))
        return "x%d" % (len(inputs) - 1)

    fx = rnd.random() < 0.2      # fixed-point elements next to integers and constants

    def elem():
        v = rnd.randint(-9, 9)
        if fx and rnd.random() < 0.5:
            return inp(rnd.randint(-40, 40) / 4.0, "PrivValFxp")
        return inp(v) if rnd.random() < 0.6 else str(v)

    if two_d:
        n, m = rnd.randint(1, 4), rnd.randint(1, 4)
        rows = ["Array([%s])" % ", ".join(elem() for _ in range(m)) for _ in range(n)]
        lines.append("A = Array([%s])" % ", ".join(rows))
        shape = (n, m)
    else:
        n = rnd.choice([1, 2, 3, 4, 5, 6] * 5 + [17, 40])
        lines.append("A = Array([%s])" % ", ".join(elem() for _ in range(n)))
        shape = (n,)
    kinds = set()
    nres = 0

    made = {}

    def index(dim):
        if made.get(dim) and rnd.random() < 0.25:
            kinds.add("index-object-reused")
            return rnd.choice(made[dim])       # the same index object used for several accesses
        name = inp(rnd.randint(0, shape[dim] - 1))
        idx_slots.append((len(inputs) - 1, shape[dim]))
        made.setdefault(dim, []).append(name)
        if rnd.random() < 0.3:
            # the index is first used for a read in a region whose guard is false (where anything is tolerated), then for real
            kinds.add("dead-region-read-first")
            if "OFF = PrivValBool(0)" not in lines:
                lines.append("OFF = PrivValBool(0)")
            lines.append("guarded(OFF)(lambda: A[%s])()" % name)
        return name

    for _ in range(rnd.randint(1, 8)):
        k = rnd.random()
        if two_d and rnd.random() < 0.15:
            # the flattened view, taken between accesses (and possibly more than once): it is a copy, the array is what it was
            kinds.add("joined-between-accesses")
            lines.append("J%d = A.joined()" % nres)
            lines.append("r%d = len(J%d) + len(A.joined()) + J%d[%d] + 0" % (nres, nres, nres, rnd.randint(0, shape[0] * shape[1] - 1)))
            nres += 1
            continue
        if two_d:
            if k < 0.3:
                lines.append("r%d = A[%s, %s] + 0" % (nres, index(0), index(1)))
                kinds.add("read2")
            elif k < 0.5:
                lines.append("r%d = A[%s][%s] + 0" % (nres, index(0), index(1)))
                kinds.add("read-row-then-col")
            elif k < 0.56:
                lines.append("r%d = A[%s][%d] + 0" % (nres, index(0), rnd.randint(-shape[1], shape[1] - 1)))
                kinds.add("read-row-const-col")
            elif k < 0.6:
                # a secret row and a public column, counted from either end
                col = rnd.randint(-shape[1], shape[1] - 1)
                lines.append("A[%s, %d] = %s" % (index(0), col, elem()))
                lines.append("r%d = A[%s, %d] + 0" % (nres, index(0), rnd.randint(-shape[1], shape[1] - 1)))
                kinds.add("write-const-col" + ("-negative" if col < 0 else ""))
            elif k < 0.7:
                lines.append("r%d = A[%d, %s] + 0" % (nres, rnd.randint(0, shape[0] - 1), index(1)))
                kinds.add("read-const-row")
            elif k < 0.9:
                lines.append("A[%s, %s] = %s" % (index(0), index(1), elem()))
                lines.append("r%d = 0" % nres)
                kinds.add("write2")
            else:
                lines.append("A[%d, %s] = %s" % (rnd.randint(-shape[0], shape[0] - 1), index(1), elem()))
                lines.append("r%d = 0" % nres)
                kinds.add("write-const-row")
        else:
            if k < 0.5:
                lines.append("r%d = A[%s] + 0" % (nres, index(0)))
                kinds.add("read")
            elif k < 0.82:
                lines.append("A[%s] = %s" % (index(0), elem()))
                lines.append("r%d = 0" % nres)
                kinds.add("write")
            elif k < 0.9:
                # the value written is the very object another cell holds (a[i] = a[0]): exactly the addressed cell changes
                lines.append("A[%s] = A[%d]" % (index(0), rnd.randint(0, shape[0] - 1)))
                lines.append("r%d = 0" % nres)
                kinds.add("write-aliased-element")
            else:
                lines.append("A[%d] = %s" % (rnd.randint(-shape[0], shape[0] - 1), elem()))
                lines.append("r%d = 0" % nres)
                kinds.add("write-const-index")
        nres += 1
    if not two_d and rnd.random() < 0.4:
        # whole-array operations: arithmetic, selection between arrays, equality assertion
        kinds.add("array-arithmetic")
        lines.append("A2 = Array([%s])" % ", ".join(elem() for _ in range(shape[0])))
        cnd = inp(rnd.randint(0, 1), "PrivValBool")
        lines.append("Z0 = A + 0")
        lines.append("Z1 = 0 + A")
        lines.append("Z0[%s] = %s" % (index(0), elem()))
        lines.append("Z1[%s] = %s" % (index(0), elem()))
        lines.append("S = A + A2")
        lines.append("D = A - A2")
        lines.append("M = %s * A + %d" % (inp(rnd.randint(-3, 3)), rnd.randint(0, 3)))
        lines.append("T = if_then_else(%s, A, A2)" % cnd)
        lines.append("T.assert_eq(if_then_else(%s, A, A2))" % cnd)
        lines.append("r%d = S[%s] + D[0] * 2 + M[%d] + T[%s] + Z0[%s] + Z1[0] * 3 + 0" % (nres, index(0), shape[0] - 1, index(0), index(0)))
        nres += 1
    if two_d and shape[0] > 1 and rnd.random() < 0.35:
        # a row read with a secret index stored at a public position, then written through a tuple index
        kinds.add("row-copy-then-tuple-write")
        k0 = rnd.randint(0, shape[0] - 1)
        if shape[0] > 2 and rnd.random() < 0.5:
            # the same row view stored at two public positions: they must stay independent of each other and of the view
            kinds.add("row-view-stored-twice")
            k1 = rnd.choice([k for k in range(shape[0]) if k != k0])
            lines.append("snap = A[%s]" % index(0))
            lines.append("A[%d] = snap" % k0)
            lines.append("A[%d] = snap" % k1)
            lines.append("A[%d, %s] = %s" % (k0, index(1), elem()))
            lines.append("r%d = A[%d][%d] + snap[%d] * 3 + 0" % (nres, k1, rnd.randint(0, shape[1] - 1), rnd.randint(0, shape[1] - 1)))
            nres += 1
        lines.append("A[%d] = A[%s]" % (k0, index(0)))
        lines.append("A[%d, %s] = %s" % (k0, index(1), elem()))
        lines.append("A[%d, %d] = %s" % (k0, rnd.randint(0, shape[1] - 1), elem()))
        lines.append("r%d = A[%d][%d] + A[%s, %s] + 0" % (nres, k0, rnd.randint(0, shape[1] - 1), index(0), index(1)))
        nres += 1
    if rnd.random() < 0.2:
        # three dimensions: a[i, j, k] with secret and public indices
        kinds.add("3d")
        dims = (rnd.randint(1, 2), rnd.randint(1, 3), rnd.randint(2, 3))
        lines.append("Q = Array([%s])" % ", ".join("Array([%s])" % ", ".join("Array([%s])" % ", ".join(elem() for _ in range(dims[2])) for _ in range(dims[1])) for _ in range(dims[0])))

        def qidx(d):
            if rnd.random() < 0.6:
                name = inp(rnd.randint(0, dims[d] - 1))
                idx_slots.append((len(inputs) - 1, dims[d]))
                return name
            return str(rnd.randint(0, dims[d] - 1))
        lines.append("r%d = Q[%s, %s, %s] + 0" % (nres, qidx(0), qidx(1), qidx(2)))
        nres += 1
        lines.append("Q[%s, %s, %s] = %s" % (qidx(0), qidx(1), qidx(2), elem()))
        lines.append("r%d = Q[%s][%s][%s] + Q[%s, %s][%s] + 0" % (nres, qidx(0), qidx(1), qidx(2), qidx(0), qidx(1), qidx(2)))
        nres += 1
    if two_d and rnd.random() < 0.3:
        # a second Array built from the first (or from one row repeated): writes to the one must not show in the other
        kinds.add("array-built-from-array")
        lines.append("C2 = Array(A)")
        lines.append("C2[%s, %d] = %s" % (index(0), rnd.randint(0, shape[1] - 1), elem()))
        lines.append("C2[%s, %s] = %s" % (index(0), index(1), elem()))
        lines.append("r%d = C2[%s][%s] + 0" % (nres, index(0), index(1)))
        nres += 1
        lines.append("G = Array([A[0]] * %d)" % shape[0])
        lines.append("G[%s, %d] = %s" % (index(0), rnd.randint(0, shape[1] - 1), elem()))
        lines.append("r%d = sum(G.joined()) + 0" % nres)
        nres += 1
    if two_d and rnd.random() < 0.4:
        kinds.add("row-view")
        lines.append("row = A[%s]" % index(0))
        lines.append("r%d = row[%d] + sum(A.joined()) * 0 + 0" % (nres, rnd.randint(0, shape[1] - 1)))
        nres += 1
        lines.append("try:\n    row[0] = 5\n    chained = 0\nexcept TypeError:\n    chained = 1")
        lines.append("r%d = chained" % nres)
        nres += 1
    if not two_d and rnd.random() < 0.35:
        # the list an Array was built from, and a second Array built from the same list, stay independent
        kinds.add("aliasing")
        lines.append("L = [%s]" % ", ".join(elem() for _ in range(shape[0])))
        lines.append("B = Array(L)")
        lines.append("C = Array(L)")
        lines.append("B[%s] = %s" % (index(0), elem()))
        lines.append("L[0] = 99")
        lines.append("r%d = C[%s] + 0" % (nres, index(0)))
        nres += 1
        lines.append("r%d = B[0] + C[%d] * 2 + 0" % (nres, shape[0] - 1))
        nres += 1
    if two_d:
        lines.append("final = [A[a][b] + 0 for a in range(%d) for b in range(%d)]" % shape)
    else:
        lines.append("final = [A[a] + 0 for a in range(%d)]" % shape[0])
    return "\n".join(lines) + "\n", inputs, idx_slots, shape, kinds, nres


def main():
    tier = common.tier()
    nshards, nprogs = (16, 300) if tier == "quick" else (32, 8000)
    jobs = [dict(seed="%d/%s/%d" % (common.seed(), PROP, s), nprogs=nprogs) for s in range(nshards)]
    R = common.Run(PROP, "exploration", RULE)
    for job, res, err in shard.run_jobs("vf.checks.C15", "worker", jobs, timeout=3600, nproc=16):
        if err:
            R.inconc("worker %s: %s" % (job["seed"], err))
            continue
        R.merge(res)
    R.assumptions = ["reference = Python list semantics (vf.ref.model.RArray)", "solver halves at bitlength 3 on arrays of length <= 4"]
    return R.finish(require_counters=("elements_compared", "oob_raises", "oob_unprovable", "trace_pairs_compared", "read_unique"))


def num(x):
    if isinstance(x, int):
        return x
    v = getattr(x, "value", None)
    if v is None and hasattr(x, "lc"):
        v = getattr(x.lc, "value", None)
    if v is None and hasattr(x, "v"):
        v = x.v
    if v is None and hasattr(x, "r"):
        v = x.r
    return v


def worker(job):
    from vf import boot, recorder, r1cs, capture, solve
    from vf.gen import prog as G
    from vf.ref import model
    rt = boot.attach()
    N = boot.Neutral()
    R = common.Run(PROP, "exploration", RULE)
    from vf.checks import C02
    st = solve.selftest() + C02.gadget_selftest()
    if st:
        R.inconc("solver self-test failed: %r" % (st[:2],))
        return R.export()
    moduli = [recorder.BN254, recorder.BLS381, recorder.C25519]
    for n in range(job["nprogs"]):
        rnd = random.Random("%s/%d" % (job["seed"], n))
        src, inputs, idx_slots, shape, kinds, nres = gen_program(rnd)
        bl = rnd.choice([5, 8, 16])
        p = rnd.choice(moduli)
        prog = G.Prog(src, [], bl, 0)
        chunks = G.compile_chunks(src)
        shape_cls = ("2d" if len(shape) == 2 else "1d") + ("-len1" if 1 in shape else "")
        kcell = "+".join(sorted(kinds))
        completed = []
        # in-range index vectors
        for trial in range(3):
            ins = list(inputs)
            if trial:
                for pos, lim in idx_slots:
                    ins[pos] = rnd.randint(0, lim - 1)
            out = G.run_api(prog, ins, N, modulus=p, chunks=chunks)
            ref = G.run_ref(prog, ins, chunks=chunks)
            key = (src, tuple(ins))
            det = dict(src=src, inputs=ins, bl=bl, p=p)
            if out.exc is not None or ref.exc is not None:
                R.case(cell="%s|%s|in-range" % (shape_cls, kcell), key=key)
                R.violation("in-range-access-raised", "API %r / model %r on in-range indices" % (out.exc, ref.exc), **det)
                continue
            ncmp = 0
            bad = None
            for name in ["r%d" % i for i in range(nres)]:
                ncmp += 1
                if num(out.ns[name]) != num(ref.ns[name]):
                    bad = "%s: API %r, list %r" % (name, num(out.ns[name]), num(ref.ns[name]))
                    break
            if bad is None:
                for i, (a, b) in enumerate(zip(out.ns["final"], ref.ns["final"])):
                    ncmp += 1
                    if num(a) != num(b):
                        bad = "element %d after the sequence: API %r, list %r" % (i, num(a), num(b))
                        break
            R.count("elements_compared", ncmp)
            R.case(cell="%s|%s|in-range" % (shape_cls, kcell), key=key, nontrivial=bool(idx_slots))
            R.sample(dict(src=src, inputs=ins), cap=4)
            if bad:
                R.violation("array-differs-from-list", bad, **det)
            snap = out.snap
            if r1cs.unsatisfied(snap["constraints"], snap["values"], snap["p"]):
                R.violation("unsatisfied-constraint", "array program leaves an unsatisfied constraint", **det)
            completed.append((ins, out))
        if len(completed) >= 2:
            t0 = r1cs.canon_trace(completed[0][1].snap)
            for ins, out in completed[1:]:
                R.count("trace_pairs_compared")
                if r1cs.canon_trace(out.snap) != t0:
                    R.violation("trace-depends-on-index", "canonical trace differs between index vectors", src=src, inputs_a=completed[0][0], inputs_b=ins, bl=bl, p=p)
        # with checks off, an out-of-range (also negative) index must still emit the very same constraint system
        if idx_slots and completed:
            pos, lim = rnd.choice(idx_slots)
            ins = list(inputs)
            ins[pos] = rnd.choice([lim, lim + 2, -1, -lim, -lim - 1])
            out = G.run_api(prog, ins, N, modulus=p, chunks=chunks, ignore=True)
            if out.exc is not None:
                R.case(cell="%s|%s|out-of-range-unchecked" % (shape_cls, kcell), key=(src, tuple(ins), "ignore"))
                R.violation("out-of-range-index-raises-with-checks-off", "index %d on an axis of length %d raised %s although error checking is off (same constraints for every index value)" % (
                    ins[pos], lim, repr(out.exc)[:80]), src=src, inputs=ins, bl=bl, p=p)
            if out.exc is None:
                R.count("trace_pairs_compared")
                R.count("out_of_range_unchecked_traces_compared")
                R.case(cell="%s|%s|out-of-range-unchecked" % (shape_cls, kcell), key=(src, tuple(ins), "ignore"))
                if r1cs.canon_trace(out.snap) != r1cs.canon_trace(completed[0][1].snap):
                    R.violation("trace-depends-on-index", "canonical trace for the out-of-range index %d (checks off) differs from the in-range one" % ins[pos],
                                src=src, inputs_a=completed[0][0], inputs_b=ins, bl=bl, p=p)
        # out-of-range index: must raise with checks on
        if idx_slots:
            pos, lim = rnd.choice(idx_slots)
            ins = list(inputs)
            ins[pos] = rnd.choice([lim, lim + 1, -1, -lim, lim + rnd.randint(2, 9)])
            out = G.run_api(prog, ins, N, modulus=p, chunks=chunks)
            R.case(cell="%s|%s|out-of-range" % (shape_cls, kcell), key=(src, tuple(ins)))
            if out.exc is None:
                R.violation("out-of-range-index-accepted", "index %d on axis of length %d did not raise" % (ins[pos], lim), src=src, inputs=ins, bl=bl, p=p)
            else:
                R.count("oob_raises")
    # solver halves: small single accesses
    for n in range(max(6, job["nprogs"] // 6)):
        rnd = random.Random("%s/s%d" % (job["seed"], n))
        L = rnd.randint(1, 4)
        vals = [rnd.randint(-3, 3) for _ in range(L)]
        p = rnd.choice(moduli)
        pre = "\n".join("x%d = PrivVal(I[%d])" % (k, k) for k in range(L + 2)) + "\n"
        pre += "A = Array([%s])\n" % ", ".join(("x%d" % k) if rnd.random() < 0.6 else str(vals[k]) for k in range(L))
        write = rnd.random() < 0.5
        op = ("A[x%d] = x%d\nr = A[%d] + 0" % (L, L + 1, rnd.randint(0, L - 1))) if write else ("r = A[x%d] + 0" % L)
        # (a) in range: unique
        idx = rnd.randint(0, L - 1)
        cap = capture.capture(pre, op, ["r"], vals + [idx, 2], N, 3, 0, p=p)
        if cap.exc is None:
            res = solve.solve(cap.cons, cap.fixed, p, cap.result_lcs, maxleaves=40000)
            v = res.verdict(cap.honest)
            R.case(cell="solver|%s|len%d" % ("write" if write else "read", L), key=(pre, op, idx, p))
            if v == "unique":
                R.count("read_unique")
            elif v == "inconclusive":
                R.count("solver_inconclusive")
            else:
                R.violation("array-access-not-unique", "%s with index %d: %s %s" % (op, idx, v, sorted(res.values)[:3]), pre_src=pre, op_src=op, p=p)
        # (b) out of range with checks off: unprovable
        idx = rnd.choice([L, L + 1, -1, L + 3])
        cap = capture.capture(pre, op, [], vals + [idx, 2], N, 3, 0, p=p, ignore=True)
        if cap.exc is None:
            res = solve.solve(cap.cons, cap.fixed, p, [], maxleaves=40000)
            sat = bool(res.values or res.free)
            R.case(cell="solver|oob|%s|len%d" % ("write" if write else "read", L), key=(pre, op, idx, p, "oob"))
            if sat:
                R.violation("out-of-range-index-provable", "%s with index %d (length %d), checks off: constraints satisfiable" % (op, idx, L),
                            pre_src=pre, op_src=op, p=p, inputs=vals + [idx, 2])
            elif res.inconclusive or res.budget_exceeded:
                R.count("solver_inconclusive")
            else:
                R.count("oob_unprovable")
        else:
            R.count("oob_capture_raised")
    return R.export()


def replay(path):
    d = json.load(open(path))
    print(json.dumps(d, indent=1)[:3000])
    return 0
