"""C18: proof artefacts are emitted at exit only for successful runs, and completely (DESIGN.md 4/C18).

Fault enumeration: one fresh interpreter per (script, statement position, termination mode, backend), scratch cwd.  An
audit hook installed before pysnark is imported logs every open() so that artefact writes can be counted; artefacts of a
successful termination at position k must be byte-identical to those of the script's first k statements falling off the
end (whose content C10/C11/C12 validate); exit status and stderr are compared with a control run without pysnark."""
import json
import os
import random
import shutil
import subprocess
import tempfile

from vf import common, shard, boot

PROP = "C18"
RULE = ("one case = one process: a script of 4..10 statements cut at statement position k by one termination mode (fall off, "
        "sys.exit(0|None|3|'msg'), bare sys.exit(), uncaught exception, KeyboardInterrupt, raise SystemExit(0|1), builtin exit(0|1), "
        "an intercepted sys.exit(0) followed by an exception / interrupt / sys.exit(3), autoprove off) on one file-writing backend (snarkjs, zkinterface, qaptools); the whole matrix is enumerated for each script; "
        "non-trivial = the process ran to its termination point and its artefacts, audit log, exit status and stderr were judged; "
        "distinct by (backend, script, position, mode); cell = backend x mode x position class (start / middle / end)")

MODES = {
    # name: (source inserted at the termination point, successful?)
    "fall_off": ("", True),
    "sys_exit_0": ("sys.exit(0)", True),
    "sys_exit_none": ("sys.exit(None)", True),
    "sys_exit_bare": ("sys.exit()", True),
    "raise_systemexit_0": ("raise SystemExit(0)", True),
    "builtin_exit_0": ("exit(0)", True),
    # statuses that are integers without being of type int
    "sys_exit_false": ("sys.exit(False)", True),
    "sys_exit_intenum_0": ("import enum\nclass _Rc(enum.IntEnum):\n    OK = 0\n    BAD = 2\nsys.exit(_Rc.OK)", True),
    "sys_exit_true": ("sys.exit(True)", False),
    "sys_exit_intenum_2": ("import enum\nclass _Rc(enum.IntEnum):\n    OK = 0\n    BAD = 2\nsys.exit(_Rc.BAD)", False),
    # an exception raised inside a function decorated with the library's own @benchmark
    "exception_inside_benchmark": ("from pysnark.runtime import benchmark\n@benchmark()\ndef _bf():\n    PrivVal(2) * PrivVal(3)\n    raise ValueError('boom')\n_bf()", False),
    "sys_exit_3": ("sys.exit(3)", False),
    "sys_exit_minus_1": ("sys.exit(-1)", False),
    "sys_exit_minus_300": ("sys.exit(-300)", False),
    "exception_without_message": ("raise ValueError", False),
    "exception_empty_message": ("raise RuntimeError('')", False),
    "assertion_error_without_message": ("raise AssertionError", False),
    "baseexception_subclass_without_message": ("class _Stop(BaseException):\n    pass\nraise _Stop()", False),
    # exception objects that are falsy (an error collection that defines __len__ / __bool__)
    "uncaught_exception_with_len_0": ("class _Errs(Exception):\n    def __len__(self):\n        return 0\nraise _Errs()", False),
    "uncaught_exception_bool_false": ("class _Quiet(Exception):\n    def __bool__(self):\n        return False\nraise _Quiet('stop')", False),
    # the script provokes refusals of the library (failed assertion, failed hand-written constraint, division by zero), handles them and ends normally
    "caught_library_refusals_then_end": ("import pysnark.runtime as _r\nfor _f in (lambda: PrivVal(3).assert_eq(4), lambda: _r.add_constraint(PrivVal(2), PrivVal(3), PrivVal(7)),\n"
                                         "           lambda: PrivVal(1) / PrivVal(0), lambda: PrivVal(5).assert_lt(2), lambda: PrivVal(2) * 'x'):\n"
                                         "    try:\n        _f()\n    except (AssertionError, ZeroDivisionError, ValueError, RuntimeError, TypeError):\n        pass", True),
    # a script that has test / debugging frameworks loaded (for their helpers) is a script like any other
    "frameworks_imported_then_end": ("import unittest, doctest, pdb, logging\ntry:\n    import pytest\nexcept ImportError:\n    pass", True),
    "sys_exit_msg": ("sys.exit('stop: invalid input')", False),
    "sys_exit_empty_str": ("sys.exit('')", False),
    "sys_exit_empty_list": ("sys.exit([])", False),
    "uncaught_exception": ("raise ValueError('boom')", False),
    "keyboard_interrupt": ("raise KeyboardInterrupt()", False),
    "raise_systemexit_1": ("raise SystemExit(1)", False),
    "builtin_exit_1": ("exit(1)", False),
    # multi-step terminations: an intercepted successful sys.exit followed by a failing end
    "caught_exit0_then_exception": ("try:\n    sys.exit(0)\nexcept SystemExit:\n    pass\nraise ValueError('boom')", False),
    "caught_exit_none_then_interrupt": ("try:\n    sys.exit()\nexcept SystemExit:\n    pass\nraise KeyboardInterrupt()", False),
    "caught_exit0_then_exit3": ("try:\n    sys.exit(0)\nexcept SystemExit:\n    pass\nsys.exit(3)", False),
    # an exception hook installed by the application before pysnark, which itself fails
    "exception_with_failing_custom_excepthook": ("raise ValueError('boom')", False),
    "autoprove_off": ("import pysnark.runtime as _r\n_r.autoprove = False", None),
    # the manual workflow of the libsnark examples (an operation is named, proving is driven by hand) on whatever backend is in effect
    "autoprove_off_operation_named": ("import pysnark.runtime as _r\n_r.autoprove = False\n_r.operation = 'prove'\n_r.namevals = {'x': 3}", None),
}
BACKENDS = {
    "snarkjs": ["witness.wtns", "circuit.r1cs"],
    "zkinterface": ["computation.zkif", "circuit.zkif"],
    "qaptools": ["keys/pysnark_schedule"],
}
STMTS = ["a = PrivVal(3)", "b = a * a", "c = PubVal(5)", "d = b + c * 2", "e = (d * a).val()", "f = b < c", "g = PrivVal(-7) * a",
         "h = (a + 1) * (b - 2)", "i = PubVal(11) * c", "j = (g + h).val()", "k = d // 3", "m = if_then_else(f, a, b)"]

PRELUDE = """import sys, os
_fd = os.open("audit.log", os.O_WRONLY | os.O_CREAT | os.O_APPEND)
def _hook(ev, args):
    if ev == "open" and isinstance(args[0], str):
        try: os.write(_fd, ("%s\\t%s\\n" % (args[0], args[1])).encode())
        except Exception: pass
sys.addaudithook(_hook)
"""
IMPORTS = "from pysnark.runtime import PrivVal, PubVal\nfrom pysnark.branching import if_then_else\n"
# a counter on the proving step of the backend in effect, installed by the script after the import (the way an application
# would wrap or replace its backend); its reading is written by an exit handler registered before pysnark's, i.e. run after it
OBSERVE_PRE = "import atexit\n_PC = [0]\natexit.register(lambda: open('prove_calls.txt', 'w').write(str(_PC[0])))\n"
OBSERVE = {
    "wrap": ("import pysnark.runtime as _rt\n_op = _rt.backend.prove\ndef _counted(*a, **k):\n    _PC[0] += 1\n    return _op(*a, **k)\n"
             "_rt.backend.prove = _counted\n"),
    "proxy": ("import pysnark.runtime as _rt\nclass _Proxy:\n    def __init__(self, m): self.__dict__['_m'] = m\n"
              "    def __getattr__(self, n): return getattr(self.__dict__['_m'], n)\n"
              "    def __setattr__(self, n, v): setattr(self.__dict__['_m'], n, v)\n"
              "    def prove(self, *a, **k):\n        _PC[0] += 1\n        return self.__dict__['_m'].prove(*a, **k)\n"
              "_rt.backend = _Proxy(_rt.backend)\n"),
}
CONTROL_IMPORTS = "PrivVal = PubVal = lambda v: v\nif_then_else = lambda c, a, b: a\nclass _V(int):\n    def val(self): return self\n"


# what the control run (same termination, no pysnark) executes where the script's text needs the library
TRACING_MODES = ("caught_library_refusals_then_end",)
CONTROL_INS = {
    "caught_library_refusals_then_end": "pass",
    "exception_inside_benchmark": "def _bf():\n    raise ValueError('boom')\n_bf()",
}
PRE_IMPORT = {
    "exception_with_failing_custom_excepthook": "def _apphook(tp, ex, tb):\n    raise RuntimeError('application hook failed')\nsys.excepthook = _apphook\n",
}


CHDIR = "os.makedirs('sub/keys', exist_ok=True)\nos.chdir('sub')\n"      # the script moves on after importing the library


def make_script(stmts, k, mode, control=False, observe=None, chdir=False):
    body = list(stmts[:k])
    ins = MODES[mode][0]
    if control:
        lines = ["import sys", PRE_IMPORT.get(mode, "")]
        if ins and MODES[mode][1] is not None:
            lines.append(CONTROL_INS.get(mode, ins))
        return "\n".join(lines) + "\n"
    src = PRELUDE + (OBSERVE_PRE if observe else "") + PRE_IMPORT.get(mode, "") + IMPORTS + (CHDIR if chdir else "") + (OBSERVE[observe] if observe else "") + "\n".join(body) + "\n"
    if ins:
        src += ins + "\n"
    if MODES[mode][1] is None or mode == "fall_off":
        src += "\n".join(stmts[k:]) + "\n"     # autoprove off / fall off: the script simply continues to its end
    return src


def main():
    tier = common.tier()
    rnd = common.rng(PROP, "scripts")
    nscripts = 2 if tier == "quick" else 10
    scripts = []
    for s in range(nscripts):
        n = rnd.randint(4, 6) if tier == "quick" else rnd.randint(4, 10)
        pool = STMTS[:]
        st = ["a = PrivVal(3)", "b = a * a", "c = PubVal(5)"]
        while len(st) < n:
            cand = rnd.choice(pool[3:])
            if cand not in st and all(dep in "".join(st) for dep in deps(cand)):
                st.append(cand)
        scripts.append(st)
    runs = []
    for si, st in enumerate(scripts):
        for be in BACKENDS:
            for k in range(len(st) + 1):
                for mode in MODES:
                    if mode == "fall_off" and k != len(st):
                        continue
                    runs.append(dict(backend=be, script=si, stmts=st, k=k, mode=mode, observe=[None, "wrap", None, "proxy"][(k + len(runs)) % 4],
                                     chdir=(len(runs) % 5 == 2), other_tmp=(len(runs) % 3 == 1)))
    common.rng(PROP, "order").shuffle(runs)
    nshards = 16
    jobs = [dict(seed="%d/%s/%d" % (common.seed(), PROP, s), runs=runs[s::nshards]) for s in range(nshards)]
    R = common.Run(PROP, "fault_enumeration", RULE)
    boot.spread_pyflags(jobs)
    for job, res, err in shard.run_jobs("vf.checks.C18", "worker", jobs, timeout=3600, nproc=16, shims=("flatbuffers",)):
        if err:
            R.inconc("worker %s: %s" % (job["seed"], err))
            continue
        R.merge(res)
    R.extra["exhaustive"] = True
    R.extra["matrix"] = dict(scripts=len(scripts), backends=list(BACKENDS), modes=list(MODES), runs=len(runs))
    R.assumptions = ["completeness of artefacts = byte identity with the same prefix falling off the end (content validated by C10/C11/C12)",
                     "expected exit status and stderr shape come from a control run of the same termination without pysnark"]
    return R.finish(require_counters=("success_runs_judged", "failure_runs_judged", "autoprove_off_runs_judged", "artefacts_byte_compared"))


def deps(stmt):
    rhs = stmt.split("=", 1)[1]
    return [v for v in "abcdefghijkm" if (" %s " % v) in (" " + rhs.replace("(", " ").replace(")", " ").replace(".", " ").replace(",", " ") + " ")]


def other_filesystem_tmp():
    """a temp directory on another file system than the working directories (None if there is none)"""
    try:
        if os.path.isdir("/dev/shm") and os.access("/dev/shm", os.W_OK) and os.stat("/dev/shm").st_dev != os.stat(os.getcwd()).st_dev:
            return "/dev/shm"
    except OSError:
        pass
    return None


def run_script(src, wd, backend, timeout=120, tmpdir=None):
    os.makedirs(os.path.join(wd, "keys"), exist_ok=True)
    open(os.path.join(wd, "prog.py"), "w").write(src)
    env = {"PYSNARK_BACKEND": backend} if backend else {}
    if backend == "qaptools":
        env.update({"QAPTOOLS_BIN": os.path.join(boot.SHIMS, "qaptools_bin"), "PYSNARK_KEYDIR": "keys"})
    e = boot.child_env(env, shims=("flatbuffers",))
    if tmpdir:
        e["TMPDIR"] = tmpdir
    if not backend:
        e["PYTHONPATH"] = ""
    pr = subprocess.run([boot.PY] + boot.pyflags() + ["prog.py"], cwd=wd, env=e, stdout=subprocess.PIPE, stderr=subprocess.PIPE, timeout=timeout)
    return pr.returncode, pr.stderr.decode(errors="replace"), pr.stdout.decode(errors="replace")


def audit_counts(wd):
    counts = {}
    try:
        for ln in open(os.path.join(wd, "audit.log")):
            path, _, mode = ln.rstrip("\n").partition("\t")
            if "w" in mode or "a" in mode or "x" in mode or "+" in mode:
                counts[os.path.basename(path)] = counts.get(os.path.basename(path), 0) + 1
    except OSError:
        pass
    return counts


def worker(job):
    R = common.Run(PROP, "fault_enumeration", RULE)
    import sys as _sys
    if _sys.flags.optimize:
        R.count("workers_under_python_O%s" % ("O" if _sys.flags.optimize > 1 else ""))
    home = os.getcwd()
    ref_cache = {}
    ctl_cache = {}
    for run in job["runs"]:
        be, st, k, mode = run["backend"], run["stmts"], run["k"], run["mode"]
        arts = BACKENDS[be]
        wd = tempfile.mkdtemp(prefix="c18-", dir=home)
        try:
            observe = run.get("observe")
            chdir = bool(run.get("chdir")) and be != "qaptools"      # (its key directory is a relative path here: files opened at import)
            tmpdir = other_filesystem_tmp() if run.get("other_tmp") else None
            if chdir:
                R.count("runs_that_change_directory_after_import")
            if tmpdir:
                R.count("runs_with_tmpdir_on_another_filesystem")
            rc, err, out = run_script(make_script(st, k, mode, observe=observe, chdir=chdir), wd, be, tmpdir=tmpdir)
            root = os.path.join(wd, "sub") if chdir else wd         # where the script is when it ends
            if chdir and any(os.path.exists(os.path.join(wd, a)) for a in arts):
                R.violation("artefact-in-import-time-directory", "the script changed directory after importing the library; artefacts appeared in the directory of the import, not in the current one",
                            backend=be, statements=st, position=k, mode=mode)
            proved = None
            if observe:
                try:
                    proved = int(open(os.path.join(root, "prove_calls.txt")).read())
                except (OSError, ValueError):
                    proved = -1
            present = {a: os.path.exists(os.path.join(root, a)) for a in arts}
            blobs = {a: open(os.path.join(root, a), "rb").read() for a in arts if present[a]}
            writes = audit_counts(wd)
            eqfiles = sorted(f for f in os.listdir(os.path.join(root, "keys")) if f.startswith("pysnark_eqs_")) if be == "qaptools" else []
            eqblobs = {f: open(os.path.join(root, "keys", f), "rb").read() for f in eqfiles}
        finally:
            shutil.rmtree(wd, ignore_errors=True)
        # control: same termination without pysnark
        if mode not in ctl_cache:
            wd = tempfile.mkdtemp(prefix="c18c-", dir=home)
            try:
                ctl_cache[mode] = run_script(make_script(st, k, mode, control=True), wd, None)[:2]
            finally:
                shutil.rmtree(wd, ignore_errors=True)
        crc, cerr = ctl_cache[mode]
        pos = "start" if k == 0 else ("end" if k == len(st) else "middle")
        cell = "%s|%s|%s" % (be, mode, pos)
        det = dict(backend=be, statements=st, position=k, mode=mode, exit_status=rc, stderr_tail=err[-500:], artefacts_present=present, writes=writes)
        R.case(cell=cell, key=(be, tuple(st), k, mode))
        success = MODES[mode][1]
        hook_failed = ("Exception ignored in atexit" in err or "Error in atexit" in err or
                       ("Traceback" in err and "Traceback" not in cerr))
        if rc != crc:
            R.violation("exit-status-altered:" + mode, "exit status %s, the same termination without pysnark gives %s" % (rc, crc), **det)
        if hook_failed:
            R.violation(classify_hook(mode, err), "the exit hook failed / printed a traceback: %s" % err.strip().splitlines()[-1][:160], **det)
        if proved is not None:
            R.count("proving_step_call_counts_observed")
            want = 1 if success is True else 0
            det["prove_calls"] = proved
            if proved != want:
                R.violation(("proving-step-ran-%d-times:%s" % (proved, mode)) if success is not False else classify_fail(mode),
                            "the proving step of the backend in effect ran %d time(s) at exit, expected %d (%s, counter installed by %s)" % (proved, want, mode, observe), **det)
        if success is True:
            R.count("success_runs_judged")
            # reference: the first k statements falling off the end (for fall_off: the whole script)
            kk = len(st) if mode == "fall_off" else k
            ref_st = list(st[:kk]) + ([MODES[mode][0]] if mode in TRACING_MODES else [])     # a termination text that itself traces belongs to the trace
            rk = (be, tuple(ref_st))
            if rk not in ref_cache:
                wd = tempfile.mkdtemp(prefix="c18r-", dir=home)
                try:
                    run_script(make_script(ref_st, len(ref_st), "fall_off"), wd, be)
                    ref_cache[rk] = ({a: open(os.path.join(wd, a), "rb").read() for a in arts if os.path.exists(os.path.join(wd, a))},
                                     {f: open(os.path.join(wd, "keys", f), "rb").read() for f in os.listdir(os.path.join(wd, "keys")) if f.startswith("pysnark_eqs_")})
                finally:
                    shutil.rmtree(wd, ignore_errors=True)
            rblobs, reqs = ref_cache[rk]
            if not all(present.values()):
                R.violation("no-artefact-after-success:" + mode, "successful termination (%s) left no %s" % (mode, [a for a in arts if not present[a]]), **det)
                continue
            for a in arts:
                R.count("artefacts_byte_compared")
                if a not in rblobs or blobs[a] != rblobs[a]:
                    R.violation("artefact-incomplete:" + mode, "%s differs from the artefact of the same %d statements falling off the end" % (a, kk), **det)
                    break
            if be == "qaptools" and eqblobs != reqs:
                R.violation("artefact-incomplete:" + mode, "per-function equation files differ from the fall-off run of the same prefix", **det)
            for a in arts:
                n = writes.get(os.path.basename(a), 0)
                if n > 1:          # (0 = written under another name and moved into place: an atomic write is fine)
                    R.violation("artefact-written-%s-times" % n, "%s opened for writing %d times" % (a, n), **det)
                    break
        elif success is False:
            R.count("failure_runs_judged")
            if any(present.values()):
                R.violation(classify_fail(mode), "failing termination (%s, exit status %s) still produced %s" % (mode, rc, [a for a in arts if present[a]]), **det)
        else:
            R.count("autoprove_off_runs_judged")
            if any(present.values()):
                R.violation("artefact-with-autoprove-off", "autoprove off but %s was produced" % [a for a in arts if present[a]], **det)
        R.sample(dict(backend=be, position=k, of=len(st), mode=mode, exit_status=rc, artefacts=present), cap=6)
    return R.export()


def classify_fail(mode):
    if mode in ("raise_systemexit_1", "builtin_exit_1"):
        return "artefact-after-systemexit-not-via-sys.exit"
    return "artefact-after-failure:" + mode


def classify_hook(mode, err):
    if mode.startswith("autoprove_off") and "process_snark" in err:
        return "exit-hook-fails-with-autoprove-off"
    return "exit-hook-failed:" + mode


def replay(path):
    d = json.load(open(path))
    det = d["detail"]
    wd = tempfile.mkdtemp(prefix="c18replay-")
    try:
        rc, err, out = run_script(make_script(det["statements"], det["position"], det["mode"]), wd, det["backend"])
        print("exit status", rc)
        print(err[-800:])
        print(sorted(os.listdir(wd)), sorted(os.listdir(os.path.join(wd, "keys"))))
    finally:
        shutil.rmtree(wd, ignore_errors=True)
    return 0
