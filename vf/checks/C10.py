"""C10: snarkjs files encode exactly the traced circuit and a valid witness (DESIGN.md 4/C10).

Translation validation: programs are traced on the real pysnark.snarkjsbackend; its in-memory lists are snapshotted
immediately before prove(); circuit.r1cs / witness.wtns written into a scratch cwd are decoded by independent strict
readers and compared with the snapshot; the decoded witness must satisfy the decoded constraints."""
import json
import os
import random
import shutil
import subprocess
import tempfile

from vf import common, shard, boot

PROP = "C10"
FIRST_OUTPUT_NAME = "circuit.r1cs"     # taken by a directory in the "first-prove-fails" script variant
RULE = ("one program = one traced computation (generated programs over the full grammar, plus 'hostile' straight-line field "
        "programs with negative values, values >= p, values wider than 256 bits, zero coefficients, empty linear combinations, no "
        "public values, no constraints) whose files are decoded and compared with the in-memory trace; non-trivial = files were "
        "written and every comparison ran; distinct by (source, inputs); cell = program class x value classes present")


def main():
    tier = common.tier()
    nshards, n = (16, 200) if tier == "quick" else (32, 2000)
    jobs = [dict(seed="%d/%s/%d" % (common.seed(), PROP, s), n=n, scripts=(2 if tier == "quick" else 6)) for s in range(nshards)]
    R = common.Run(PROP, "translation_validation", RULE)
    for si, j in enumerate(jobs):
        # every number of public values from 0 to 130 once (with a few private values and constraints), spread over the shards
        j["sizes"] = [[npub, (npub * 7 + 3) % 5, (npub * 3) % 3] for npub in range(si, 131, len(jobs))]
    boot.spread_pyflags(jobs)
    for job, res, err in shard.run_jobs("vf.checks.C10", "worker", jobs, timeout=3600, nproc=16):
        if err:
            R.inconc("worker %s: %s" % (job["seed"], err))
            continue
        R.merge(res)
    R.extra["programs"] = R.counters.get("programs_validated", 0)
    R.extra["disagreements_checked"] = R.counters.get("comparisons", 0)
    R.assumptions = ["decoders in vf/decode/snarkjs.py follow the iden3 r1cs v1 / wtns v2 layout; nLabels=0 and nPrvIn=0 in the header are not counts of file content (DESIGN.md 6.6)"]
    return R.finish(require_counters=("programs_validated", "comparisons", "decoded_constraints", "scripts_validated", "hostile_values_seen", "second_prove_validated", "runs_in_a_reused_directory"))


def validate(R, snap, cwd, det, klass):
    """compare the files in cwd with the in-memory snapshot; returns number of problems"""
    from vf.decode import snarkjs as dec
    from vf import r1cs as ev
    p = snap["p"]
    problems = []
    try:
        rb = open(os.path.join(cwd, "circuit.r1cs"), "rb").read()
        wb = open(os.path.join(cwd, "witness.wtns"), "rb").read()
    except OSError as e:
        R.violation("files-missing", "prove() did not leave both files: %s" % e, **det)
        return 1
    c = dec.read_r1cs(rb)
    w = dec.read_wtns(wb)
    for pr in c.problems:
        problems.append(("r1cs-malformed", pr))
    for pr in w.problems:
        problems.append(("wtns-malformed", pr))
    npub, npriv = len(snap["pubvals"]), len(snap["privvals"])
    expect_w = [v % p for v in [1] + snap["pubvals"] + snap["privvals"]]
    ncomp = 0
    if hasattr(w, "values"):
        ncomp += len(expect_w)
        if w.prime != p:
            problems.append(("wtns-prime", "witness file prime differs from the backend's"))
        if w.n_witness != len(expect_w):
            problems.append(("wtns-count", "witness declares %d values, trace has %d wires" % (w.n_witness, len(expect_w))))
        elif w.values != expect_w:
            i = next(i for i, (a, b) in enumerate(zip(w.values, expect_w)) if a != b)
            problems.append(("witness-value-differs", "wire %d decodes to %d, trace value mod p is %d" % (i, w.values[i], expect_w[i])))
    if hasattr(c, "constraints"):
        if c.prime != p:
            problems.append(("r1cs-prime", "circuit file prime differs"))
        if c.n_wires != 1 + npub + npriv:
            problems.append(("r1cs-nwires", "nWires %d, trace has %d" % (c.n_wires, 1 + npub + npriv)))
        if c.n_pub_out + c.n_pub_in != npub:
            problems.append(("r1cs-npub", "public counts %d+%d, trace has %d public values" % (c.n_pub_out, c.n_pub_in, npub)))
        if c.n_constraints != len(snap["constraints"]):
            problems.append(("r1cs-nconstraints", "declares %d constraints, trace has %d" % (c.n_constraints, len(snap["constraints"]))))
        for k, (dc, mc) in enumerate(zip(c.constraints, snap["constraints"])):
            for part in range(3):
                ncomp += 1
                want = sorted(((kk if kk >= 0 else npub - kk), vv % p) for kk, vv in mc[part].items())
                got = sorted(dc[part])
                if got != want:
                    problems.append(("constraint-differs", "constraint %d part %s decodes to %s, trace (wire numbering one|public|private) %s" % (
                        k, "ABC"[part], got[:4], want[:4])))
                    break
            else:
                continue
            break
        R.count("decoded_constraints", len(c.constraints))
        # decoded witness satisfies decoded constraints
        if hasattr(w, "values") and len(w.values) == c.n_wires and not any(m == "constraint-differs" for m, _ in problems):
            cons = [tuple(dict(part) for part in dc) for dc in c.constraints]
            try:
                bad = ev.unsatisfied(cons, w.values, c.prime)
            except IndexError:
                bad = [-1]
            ncomp += len(cons)
            if bad:
                problems.append(("decoded-witness-unsatisfying", "decoded witness violates decoded constraint %d" % bad[0]))
    R.count("comparisons", ncomp)
    seen = set()
    for mech, what in problems:
        if mech in seen:
            continue
        seen.add(mech)
        R.violation(mech, what, **det)
    return len(problems)


def prove_in(rt, wd, home):
    import contextlib
    import io
    os.chdir(wd)
    try:
        with contextlib.redirect_stdout(io.StringIO()), contextlib.redirect_stderr(io.StringIO()):
            rt.backend.prove()
    finally:
        os.chdir(home)


def worker(job):
    from vf import realrun
    from vf.gen import prog as G
    rt = realrun.attach_real("snarkjs")
    realrun.install_boundary(rt)
    R = common.Run(PROP, "translation_validation", RULE)
    import sys as _sys
    if _sys.flags.optimize:
        R.count("workers_under_python_O%s" % ("O" if _sys.flags.optimize > 1 else ""))
    rnd = random.Random(job["seed"])
    p = rt.backend.get_modulus()
    home = os.getcwd()
    reuse = tempfile.mkdtemp(prefix="c10same-", dir=home)     # a directory in which runs follow each other (files are overwritten)
    sweep = job.get("sizes") or []
    for n in range(job["n"] + len(sweep)):
        hostile = rnd.random() < 0.5
        if n >= job["n"]:
            npub, npriv, ncons = sweep[n - job["n"]]
            src, inputs = realrun.sized_program(npub, npriv, ncons)
            out = realrun.run_src(rt, src, inputs, 16, 8)
            if out.exc is not None:
                R.violation("sized-program-raised", "a program with %d public and %d private values raised %r" % (npub, npriv, out.exc), src=src)
                continue
            snap = realrun.boundary_snapshot(rt)
            wd = tempfile.mkdtemp(prefix="cszs-", dir=home)
            try:
                prove_in(rt, wd, home)
                validate(R, snap, wd, dict(src=src, inputs=inputs, public_values=npub, private_values=npriv, constraints=len(snap["constraints"])), "snarkjs")
            finally:
                shutil.rmtree(wd, ignore_errors=True)
            R.count("sizes_swept")
            R.case(cell="%s|size-sweep|pub%d" % ("snarkjs", min(npub // 32, 4)), key=("snarkjs", "size", npub, npriv, ncons))
            continue
        if n == 1:
            # one large circuit per worker (block / buffer boundaries of the writers)
            src, inputs = "x = PrivVal(I[0])\ny = PubVal(I[1])\nfor k in range(%d):\n    y = y * x + k\nz = y.val()\n" % rnd.randint(4200, 9000), [3, -2]
            bl, res, klass = 16, 8, "large"
        elif hostile:
            src, inputs = realrun.hostile_program(rnd, p)
            bl, res = 16, 8
            klass = "hostile"
        else:
            g = G.Gen(rnd, features=rnd.choice([("int", "bool", "assert_", "guard"), ("int", "bool", "fxp", "assert_", "array")]))
            pr = g.program(nstmts=rnd.randint(2, 9))
            src, inputs, bl, res = pr.src, pr.primary(), pr.bl, pr.res
            if rnd.random() < 0.3:
                inputs = G.mutate_inputs(pr, rnd, "valid")
            klass = "grammar"
        out = realrun.run_src(rt, src, inputs, bl, res)
        if out.exc is not None:
            R.count("program_raised")
            R.case(nontrivial=False)
            continue
        snap = realrun.boundary_snapshot(rt)
        if realrun.snapshot(rt) != snap:
            R.violation("backend-trace-differs-from-boundary", "the backend's in-memory trace is not what the runtime handed to it (constraints %d vs %d)" % (
                len(realrun.snapshot(rt)["constraints"]), len(snap["constraints"])), src=src[:400], inputs=inputs)
        vals = snap["pubvals"] + snap["privvals"]
        classes = set()
        if any(v < 0 for v in vals):
            classes.add("neg")
        if any(v >= p for v in vals):
            classes.add(">=p")
        if any(abs(v) >= 1 << 256 for v in vals):
            classes.add(">256bit")
        if any(c == 0 for con in snap["constraints"] for part in con for c in part.values()):
            classes.add("zero-coef")
        if any(len(part) == 0 for con in snap["constraints"] for part in con):
            classes.add("empty-lc")
        if not snap["pubvals"]:
            classes.add("no-pub")
        if not snap["constraints"]:
            classes.add("no-constraints")
        if classes & {"neg", ">=p", ">256bit"}:
            R.count("hostile_values_seen")
        same_dir = n % 3 == 0
        wd = reuse if same_dir else tempfile.mkdtemp(prefix="c10-", dir=home)
        try:
            os.chdir(wd)
            rt.backend.prove()
            os.chdir(home)
            det = dict(src=src if klass != "large" else src[:200], inputs=inputs, bl=bl, res=res, classes=sorted(classes), directory_reused=same_dir)
            nprob = validate(R, snap, wd, det, klass)
            if same_dir:
                R.count("runs_in_a_reused_directory")
        finally:
            os.chdir(home)
            if not same_dir:
                shutil.rmtree(wd, ignore_errors=True)
        if n % 4 == 0:
            # proving is not a one-shot: trace some more in the same process and prove again
            from pysnark.runtime import PrivVal, PubVal
            a = PubVal(rnd.randint(-9, 9))
            b = PrivVal(rnd.randint(-9, 9))
            (a * b + a).val()
            snap2 = realrun.boundary_snapshot(rt)
            wd = tempfile.mkdtemp(prefix="c10b-", dir=home)
            try:
                os.chdir(wd)
                rt.backend.prove()
                os.chdir(home)
                validate(R, snap2, wd, dict(src=src + "# then: a = PubVal(..); b = PrivVal(..); (a*b+a).val(); prove() again", inputs=inputs, second_prove=True), klass)
                R.count("second_prove_validated")
            finally:
                os.chdir(home)
                shutil.rmtree(wd, ignore_errors=True)
        R.count("programs_validated")
        R.case(cell="%s|%s" % (klass, "+".join(sorted(classes)) or "plain"), key=(src, tuple(inputs)))
        R.sample(dict(src=src[:400], inputs=inputs, classes=sorted(classes), constraints=len(snap["constraints"]),
                      wires=1 + len(vals)), cap=4)
    shutil.rmtree(reuse, ignore_errors=True)
    # a slice as real scripts: the at-exit path writes the files; the script dumps its in-memory trace just before exit
    for k in range(job["scripts"]):
        src, inputs = realrun.hostile_program(rnd, p)
        wd = wd_top = tempfile.mkdtemp(prefix="c10s-", dir=home)
        try:
            # variants of the same script: it changes directory after importing the library (files belong where the script
            # is when it ends); its first explicit prove() fails because an output name is taken by a directory, the script
            # removes the obstacle and the run ends normally.  (A standard error that refuses writes is NOT a variant: the
            # writers report progress there, a failing report aborts them - an environment fault the property does not cover.)
            variant = ["plain", "chdir", "first-prove-fails"][(int(job["seed"].rsplit("/", 1)[1]) + k + len(job["seed"])) % 3]
            extra = {"plain": "", "chdir": "import os\nos.makedirs('sub')\nos.chdir('sub')\n",
                     "first-prove-fails": ("import os, shutil\nos.makedirs(FIRSTOUT)\ntry:\n    _rt0 = __import__('pysnark.runtime').runtime\n    _rt0.backend.prove()\n"
                                           "except Exception:\n    pass\nshutil.rmtree(FIRSTOUT)\n")}[variant]
            script = ("import json, sys\nsys.set_int_max_str_digits(0)\nfrom pysnark.runtime import *\nfrom pysnark.boolean import *\nI = %r\n%s\n"
                      "import pysnark.runtime as _rt\n_b = _rt.backend\n" + extra.replace("FIRSTOUT", repr(FIRST_OUTPUT_NAME)) +
                      "json.dump(dict(p=_b.get_modulus(), pubvals=[int(v) for v in _b.pubvals], privvals=[int(v) for v in _b.privvals],\n"
                      "    constraints=[[sorted(x.lc.items()) for x in c] for c in _b.constraints]), open('trace.json', 'w'))\n") % (inputs, src)
            open(os.path.join(wd, "prog.py"), "w").write(script)
            errdev = open("/dev/full", "w") if (variant == "stderr-full" and os.path.exists("/dev/full")) else subprocess.PIPE
            try:
                pr = subprocess.run([boot.PY] + boot.pyflags() + ["prog.py"], cwd=wd, env=boot.child_env({"PYSNARK_BACKEND": "snarkjs"}),
                                    stdout=subprocess.PIPE, stderr=errdev, timeout=120)
            finally:
                if errdev is not subprocess.PIPE:
                    errdev.close()
            R.count("script_variant:" + variant)
            root = os.path.join(wd, "sub") if variant == "chdir" else wd
            if (pr.returncode != 0 and variant != "stderr-full") or not os.path.exists(os.path.join(root, "trace.json")):
                R.count("script_raised")
                continue
            if variant == "chdir":
                stray = [fn for fn in os.listdir(wd) if fn.endswith((".r1cs", ".wtns", ".zkif"))]
                if stray:
                    R.violation("files-in-import-time-directory", "the script changed directory after importing the library; %s appeared in the directory of the import" % stray, src=src, inputs=inputs)
                wd = root
            import sys
            sys.set_int_max_str_digits(0)
            tr = json.load(open(os.path.join(wd, "trace.json")))
            snap = dict(p=tr["p"], pubvals=tr["pubvals"], privvals=tr["privvals"],
                        constraints=[tuple({int(k): v for k, v in part} for part in c) for c in tr["constraints"]])
            validate(R, snap, wd, dict(src=src, inputs=inputs, script=True), "script")
            R.count("scripts_validated")
            R.case(cell="script|at-exit", key=("script", src, tuple(inputs)))
        finally:
            shutil.rmtree(wd_top, ignore_errors=True)
    return R.export()


def replay(path):
    d = json.load(open(path))
    print(json.dumps(d, indent=1)[:3000])
    return 0
