"""C17: a @snark function exposes exactly its arguments and results as public values (DESIGN.md 4/C17)."""
import json
import random

from vf import common, shard

PROP = "C17"
RULE = ("one case = one run with 1..3 calls of @snark-wrapped functions whose arguments/results are random nested list/tuple/dict "
        "structures of int/float/bool/str leaves and int/fixed-point/boolean secrets mixed with plain values; the recorder's "
        "ordered list of public variables is compared positionally (kind and value) with flatten(args) then flatten(secret "
        "results); every output wire is left unknown and must be forced to the computed value (search); non-trivial = >=1 "
        "argument and >=1 secret result were published and compared; distinct by (structure, recipe, values); cell = leaf-type "
        "mix x container kinds x number of calls")


BIG = [False]       # when set, integer leaves may be hundreds of bits wide and no floats are generated (floats cannot follow exactly)


import collections
NT1 = collections.namedtuple("NT1", "a")
NT2 = collections.namedtuple("NT2", "a b")
NT3 = collections.namedtuple("NT3", "a b c")


def gen_struct(rnd, depth=0):
    k = rnd.random()
    if depth >= 3 or k < 0.45:
        t = rnd.choice(["int", "int", "float", "bool", "str"] if not BIG[0] else ["int", "int", "bool", "str"])
        if t == "int":
            return rnd.randint(-20, 20) if not BIG[0] or rnd.random() < 0.6 else rnd.choice([(1 << 130) + 7, -(1 << 131) + 1, (1 << 200), 3 ** 90])
        if t == "float":
            return rnd.randint(-64, 64) / 16.0
        if t == "bool":
            return rnd.random() < 0.5
        return rnd.choice(["tag", "x", ""])
    n = rnd.randint(1, 3)
    if k < 0.7:
        return [gen_struct(rnd, depth + 1) for _ in range(n)]
    if k < 0.82:
        return tuple(gen_struct(rnd, depth + 1) for _ in range(n))
    if k < 0.88:
        return [NT1, NT2, NT3][n - 1](*[gen_struct(rnd, depth + 1) for _ in range(n)])     # a tuple subclass with its own constructor
    # keys of every hashable kind a caller may use: they are labels, never values (numeric keys must not become public inputs)
    keys = rnd.sample(["k0", "k1", "zeta", "alpha", "B", "a", "m2", "m10", "_x", 0, 1, 7, -3, 2.5, (1, 2), True, None], n)
    if len({k if not isinstance(k, bool) else ("b", k) for k in keys}) != len({*keys}):
        keys = [k for k in keys if not isinstance(k, bool)] or ["k0"]       # True == 1 as a dict key
    return {k: gen_struct(rnd, depth + 1) for k in keys}


def flatten(s, out):
    if isinstance(s, Tag):
        out.append(s)
    elif isinstance(s, (list, tuple)):
        for x in s:
            flatten(x, out)
    elif isinstance(s, dict):
        for k in s:
            flatten(s[k], out)
    else:
        out.append(s)
    return out


def with_wires(s, wires, mk, pos=None):
    """the same structure with the leaves whose flatten() position is in `wires` replaced by secret wires (mk(value))"""
    pos = pos if pos is not None else [0]
    if isinstance(s, Tag):
        pos[0] += 1
        return s
    if isinstance(s, (list, tuple)):
        items = [with_wires(x, wires, mk, pos) for x in s]
        if isinstance(s, list):
            return items
        return type(s)(*items) if hasattr(s, "_fields") else tuple(items)
    if isinstance(s, dict):
        return {k: with_wires(v, wires, mk, pos) for k, v in s.items()}
    i = pos[0]
    pos[0] += 1
    return mk(s) if i in wires else s


def revalue(s, rnd):
    """same structure and leaf types, other values (floats switch between whole and fractional)"""
    if isinstance(s, list):
        return [revalue(x, rnd) for x in s]
    if isinstance(s, tuple):
        return tuple(revalue(x, rnd) for x in s)
    if isinstance(s, dict):
        return {k: revalue(v, rnd) for k, v in s.items()}
    if isinstance(s, bool):
        return not s
    if isinstance(s, int):
        return rnd.randint(-20, 20)
    if isinstance(s, float):
        return float(rnd.randint(-4, 4)) if s != int(s) else rnd.randint(-64, 64) / 16.0 + 0.0625
    return s


def containers(s, out):
    if isinstance(s, list):
        out.add("list")
    elif isinstance(s, tuple):
        out.add("tuple")
    elif isinstance(s, dict):
        out.add("dict")
    if isinstance(s, (list, tuple)):
        for x in s:
            containers(x, out)
    elif isinstance(s, dict):
        for x in s.values():
            containers(x, out)
    return out


def gen_recipe(rnd, leaves):
    """list of result leaves: (op, i, j, c)"""
    nums = [i for i, x in enumerate(leaves) if not isinstance(x, str)]
    out = []
    for _ in range(rnd.randint(1, 5)):
        if not nums or rnd.random() < 0.2:
            out.append(("plain", 0, 0, rnd.choice([7, "s", 2.5, True])))
            continue
        i, j = rnd.choice(nums), rnd.choice(nums)
        op = rnd.choice(["same", "add", "sub", "mulc", "lt", "eq", "addc", "mul"] + INT_OPS)
        if op in INT_OPS and not (type(leaves[i]) is int and abs(leaves[i]) < 100):
            op = "same"
        if op == "mul" and (isinstance(leaves[i], float) or isinstance(leaves[j], float)):
            op = "add"      # a product of two fixed-point values is not exact on plain floats
        out.append((op, i, j, rnd.randint(-3, 3)))
    return out


# operators applied to one small integer leaf x, written so that plain ints and secret ints stay inside every operator's domain;
# the constants in them are constants of the circuit, never public values
INT_OPS = ["rsubc", "modc", "rmodc", "floordivc", "rfloordivc", "rdivmodc", "shr", "andc", "rorc", "rxorc", "abs", "neg", "rmulc", "powc", "rtruedivc", "divself", "rdivself"]
INT_FN = {
    "rsubc": lambda x: 7 - x, "modc": lambda x: (x * x) % 7, "rmodc": lambda x: 100 % (x * x + 1), "floordivc": lambda x: (x * x) // 3,
    "rfloordivc": lambda x: 100 // (x * x + 1), "rdivmodc": lambda x: divmod(50, x * x + 1)[1], "shr": lambda x: (x * x) >> 1,
    "andc": lambda x: (x * x) & 6, "rorc": lambda x: 5 | ((x * x) & 3), "rxorc": lambda x: 9 ^ ((x * x) & 7), "abs": lambda x: abs(x),
    "neg": lambda x: -x, "rmulc": lambda x: 3 * x, "powc": lambda x: x ** 2, "rtruedivc": lambda x: (6 * x) / 3,
    # secret / secret and constant / secret (exact): the error path of these allocates its own dummy result
    "divself": lambda x: (x * (x * x + 1)) / (x * x + 1), "rdivself": lambda x: (x * 0 + 12) / (x * 0 + 4),
}


def apply_recipe(recipe, leaves):
    res = []
    for op, i, j, c in recipe:
        if op in INT_FN:
            v = INT_FN[op](leaves[i])
            res.append(int(v) if isinstance(v, float) else v)      # plain 6*x/3 is a whole float
            continue
        if op == "plain":
            res.append(c)
        elif op == "same":
            res.append(leaves[i])
        elif op == "add":
            res.append(leaves[i] + leaves[j])
        elif op == "sub":
            res.append(leaves[i] - leaves[j])
        elif op == "mulc":
            res.append(leaves[i] * c)
        elif op == "mul":
            res.append(leaves[i] * leaves[j])
        elif op == "addc":
            res.append(leaves[i] + c)
        elif op == "lt":
            res.append(leaves[i] < leaves[j])
        elif op == "eq":
            res.append(leaves[i] == leaves[j])
    return res


class Tag(tuple):
    """leaf marker that flatten() does not descend into"""
    def __new__(cls, t):
        return tuple.__new__(cls, t)


def shape_results(rnd_seed, vals):
    """deterministically nest a flat list of result leaves into list/tuple/dict containers"""
    rnd = random.Random(rnd_seed)
    vals = list(vals)
    if len(vals) == 1:
        # a single result in every shape a function may hand it back in (a 1-tuple is not its element)
        return rnd.choice([vals[0], vals[0], (vals[0],), [vals[0]], {"only": vals[0]}, ([vals[0]],)])
    k = rnd.random()
    if k < 0.4 or len(vals) < 2:
        return list(vals)
    if k < 0.6:
        return tuple(vals)
    if k < 0.8:
        keys = list(range(len(vals)))
        rnd.shuffle(keys)
        if rnd.random() < 0.3:
            return {k: v for k, v in zip(keys, vals)}          # integer keys in a result
        return {"r%d" % k: v for k, v in zip(keys, vals)}
    if k < 0.9:
        cut = rnd.randint(1, len(vals) - 1)
        return [tuple(vals[:cut]), {"t": list(vals[cut:])}]
    inner = list(vals)
    return [inner, inner, {"same": inner}]        # the same result container returned several times


def main():
    tier = common.tier()
    nshards, n = (16, 500) if tier == "quick" else (32, 20000)
    jobs = [dict(seed="%d/%s/%d" % (common.seed(), PROP, s), n=n) for s in range(nshards)]
    R = common.Run(PROP, "exploration", RULE)
    for job, res, err in shard.run_jobs("vf.checks.C17", "worker", jobs, timeout=3600, nproc=16):
        if err:
            R.inconc("worker %s: %s" % (job["seed"], err))
            continue
        R.merge(res)
    from vf import lazyimport
    lazyimport.run_family(R, ['snark'], label="C17")
    R.assumptions = ["bodies use operations that are exact on plain values and on secrets alike (+, -, * int, comparisons)",
                     "bool arguments are public inputs with value 0/1 (whether typed LinComb or LinCombBool is not part of the statement)"]
    return R.finish(require_counters=("public_inputs_compared", "public_outputs_compared", "outputs_forced_unique", "kwargs_refused",
                                      "plain_results_compared", "raising_wrapped_calls", "value_independence_pairs"))


def worker(job):
    from vf import boot, recorder, r1cs, solve
    rt = boot.attach()
    import pysnark.runtime as prt
    import pysnark.fixedpoint as fx
    import pysnark.boolean as bo
    N = boot.Neutral()
    R = common.Run(PROP, "exploration", RULE)
    from vf.checks import C02
    st = solve.selftest()
    if st:
        R.inconc("solver self-test failed: %r" % (st[:2],))
        return R.export()
    moduli = [recorder.BN254, recorder.BLS381, recorder.C25519]
    rnd = random.Random(job["seed"])
    for case_no in range(job["n"]):
        res_bits = rnd.choice([4, 8])
        p = rnd.choice(moduli)
        N(bitlength=16, resolution=res_bits, modulus=p)
        ncalls = rnd.randint(1, 3)
        BIG[0] = rnd.random() < 0.15
        expected_pub = []
        specs = []
        ok = True
        desc = []
        mix = set()
        conts = set()
        out_vars = []
        # the wrapped calls may sit inside a region guarded by a secret condition (true or false): same public values, same
        # returned values, and the same constraint system whatever the condition's value
        guard_v = rnd.choice([None, None, None, 0, 1])
        if guard_v is not None:
            gbit = bo.PrivValBool(guard_v)
            gbak = prt.add_guard(gbit)
            conts.add("under-guard-%d" % guard_v)
        for call in range(ncalls):
            if rnd.random() < 0.25:
                def boom(*a):
                    raise KeyError("body failed")
                try:
                    prt.snark(boom)(rnd.randint(0, 9), [1.5, {"k": 2}])
                except KeyError:
                    R.count("raising_wrapped_calls")
                conts.add("after-raising-call")
            args = tuple(gen_struct(rnd) for _ in range(rnd.randint(1, 3)))
            if rnd.random() < 0.3:
                # aliasing: the same container object reachable twice (f(v, v), [row] * n, a dict value shared with a list slot)
                v = rnd.choice([a for a in args if isinstance(a, (list, tuple, dict))] or [[rnd.randint(0, 9), rnd.randint(0, 9)]])
                args = rnd.choice([args + (v,), (v, v), ([v] * rnd.randint(2, 3),), args + ({"again": v, "n": 1},)])
                conts.add("aliased")
            leaves = flatten(list(args), [])
            recipe = gen_recipe(rnd, leaves)
            shape_seed = rnd.random()
            containers(list(args), conts)
            for x in leaves:
                mix.add(type(x).__name__)

            def body(*a, recipe=recipe, shape_seed=shape_seed):
                lv = flatten(list(a), [])
                return shape_results(shape_seed, apply_recipe(recipe, lv))
            try:
                plain_res = body(*args)
            except TypeError:
                R.count("recipe_not_applicable_on_plain_values")
                continue
            # some integer arguments are handed in as wires the caller already holds (next to plain numbers): they pass through
            # as they are, every plain number still becomes a public input
            wires = set()
            call_args = args
            if rnd.random() < 0.3:
                wires = {i for i, x in enumerate(leaves) if type(x) is int and abs(x) < (1 << 60) and rnd.random() < 0.5}
                if wires:
                    conts.add("wire-arguments")
                    R.count("calls_with_wire_arguments")
                    call_args = tuple(with_wires(list(args), wires, prt.PrivVal))
            specs.append((args, body, wires))
            npub0 = sum(1 for e in recorder.events if e[0] == "pub")
            nev0 = len(recorder.events)
            try:
                got = prt.snark(body)(*call_args)
            except Exception as e:  # noqa
                R.count("call_raised:" + type(e).__name__)
                desc.append(dict(args=repr(args), recipe=recipe, raised=repr(e)[:100]))
                if not isinstance(e, (ValueError, AssertionError, ZeroDivisionError)):
                    # the undecorated function returned on these arguments; a value outside an operator's domain raises one of the
                    # classes above - anything else is the wrapper (or a conversion) failing on the structure it was handed
                    R.violation("wrapped-call-raised:" + type(e).__name__, "the wrapped call raised %s: %s (the undecorated function returns %r)" % (
                        type(e).__name__, str(e)[:120], plain_res), args=repr(args), recipe=recipe)
                ok = False
                break
            pubs = [(e[1], e[2]) for e in recorder.events[nev0:] if e[0] == "pub"]
            # expected: numeric argument leaves in order, then secret result leaves in order
            exp_in = []
            for li, x in enumerate(leaves):
                if li in wires:
                    continue
                if isinstance(x, bool):
                    exp_in.append(int(x))
                elif isinstance(x, int):
                    exp_in.append(x)
                elif isinstance(x, float):
                    exp_in.append(int(x * (1 << res_bits)))
            # expected public outputs: one per *position* of a secret result in the returned structure (a container returned
            # twice is published twice), fixed-point typed when a float operand is involved
            flat_vals = apply_recipe(recipe, leaves)
            tags = []
            for (op, i, j, c), pv in zip(recipe, flat_vals):
                if op == "plain":
                    tags.append(("plain", None))
                elif op in ("lt", "eq"):
                    tags.append(("out", int(bool(pv))))
                else:
                    isfx = isinstance(leaves[i], float) or (op in ("add", "sub") and isinstance(leaves[j], float))
                    tags.append(("out", int(pv * (1 << res_bits)) if isfx else int(pv)))
            exp_out = [t[1] for t in flatten([shape_results(shape_seed, [Tag(t) for t in tags])], []) if t[0] == "out"]
            det = dict(args=repr(args), recipe=recipe, result=repr(plain_res), resolution=res_bits, p=p,
                       published=[v for _, v in pubs], expected=exp_in + exp_out)
            desc.append(det)
            key_part = (repr(args), repr(recipe))
            R.count("public_inputs_compared", len(exp_in))
            R.count("public_outputs_compared", len(exp_out))
            gotv = [v % p for _, v in pubs]
            if len(gotv) != len(exp_in) + len(exp_out):
                R.violation("public-count-differs", "%d public values created, expected %d arguments + %d secret results" % (
                    len(gotv), len(exp_in), len(exp_out)), **det)
                ok = False
            elif guard_v == 0:
                R.count("calls_under_false_guard_count_only")     # values inside a branch that is not taken are dummies
            elif gotv[:len(exp_in)] != [v % p for v in exp_in]:
                R.violation(classify_order(gotv[:len(exp_in)], exp_in, p, "inputs"), "public inputs %s, arguments in order %s" % (
                    [v for _, v in pubs][:len(exp_in)], exp_in), **det)
                ok = False
            elif gotv[len(exp_in):] != [v % p for v in exp_out]:
                R.violation(classify_order(gotv[len(exp_in):], exp_out, p, "outputs"), "public outputs %s, secret results in order %s" % (
                    [v for _, v in pubs][len(exp_in):], exp_out), **det)
                ok = False
            out_vars.extend(idx for idx, _ in pubs[len(exp_in):])
            # returned plain structure
            R.count("plain_results_compared")
            if guard_v != 0 and not same_plain(got, plain_res):
                R.violation("returned-structure-differs", "wrapped call returned %s, the undecorated function returns %r" % (repr(got)[:200], plain_res), **det)
                ok = False
        if guard_v is not None:
            prt.restore_guard(gbak)
        # every output wire forced equal to the computed wire: outputs unknown, everything else fixed
        snap = recorder.snapshot()
        if guard_v is not None and ok and specs:
            tr1 = r1cs.canon_trace(snap)
            N(bitlength=16, resolution=res_bits, modulus=p)
            gbak = prt.add_guard(bo.PrivValBool(1 - guard_v))
            try:
                for args0, body0, wires0 in specs:
                    prt.snark(body0)(*(tuple(with_wires(list(args0), wires0, prt.PrivVal)) if wires0 else args0))
                R.count("guard_value_trace_pairs")
                if r1cs.canon_trace(recorder.snapshot()) != tr1 and "after-raising-call" not in conts:
                    R.violation("trace-depends-on-guard-value", "the same wrapped calls emit a different constraint system under a true and under a false guard", calls=desc)
            except Exception as e:  # noqa - under a true guard out-of-domain arguments raise as they do unguarded (C07 owns the converse)
                R.count("raised_under_other_guard_value")
            finally:
                prt.restore_guard(gbak)
            recorder.reset()
        # the constraint system of the same calls must not depend on the argument values (whole vs fractional floats, ...)
        if ok and specs and case_no % 3 == 0 and guard_v is None and not any("aliased" == c for c in conts):
            from vf import r1cs as _ev
            tr1 = _ev.canon_trace(snap)
            N(bitlength=16, resolution=res_bits, modulus=p)
            try:
                for args0, body0, wires0 in specs:
                    other = revalue(args0, rnd)
                    prt.snark(body0)(*(tuple(with_wires(list(other), wires0, prt.PrivVal)) if wires0 else other))
                tr2 = _ev.canon_trace(recorder.snapshot())
                R.count("value_independence_pairs")
                if tr1 != tr2 and "after-raising-call" not in conts:
                    R.violation("trace-depends-on-argument-values", "the same wrapped calls on other argument values emit a different constraint system (%d vs %d events)" % (
                        len(tr1), len(tr2)), calls=desc)
            except Exception:  # noqa - other values may be outside the body's domain
                R.count("revalued_call_raised")
            recorder.reset()
            snap = dict(snap)
        if out_vars and ok and guard_v != 0:
            fixed = {i: v for i, v in enumerate(snap["values"]) if i not in set(out_vars)}
            res = solve.solve(snap["constraints"], fixed, snap["p"], [{i: 1} for i in out_vars], maxleaves=2000)
            honest = tuple(snap["values"][i] % snap["p"] for i in out_vars)
            v = res.verdict(honest)
            if v == "unique":
                R.count("outputs_forced_unique")
            elif v == "inconclusive":
                R.count("solver_inconclusive")
            else:
                R.violation("output-not-tied-to-result", "public output wires can take %s" % (v,), calls=desc)
        bad = r1cs.unsatisfied(snap["constraints"], snap["values"], snap["p"])
        if bad:
            R.violation("unsatisfied-constraint", "constraint %s unsatisfied after @snark calls" % bad[:3], calls=desc)
        R.case(cell="%s|%s|calls%d" % ("+".join(sorted(mix)), "+".join(sorted(conts)) or "flat", ncalls), key=repr(desc), nontrivial=bool(out_vars))
        R.sample(dict(calls=desc), cap=4)
        # a wrapped function without arguments: nothing becomes a public input, its secret results are published all the same
        if case_no % 5 == 0:
            N(bitlength=16, resolution=res_bits, modulus=p)
            k1, k2 = rnd.randint(-9, 9), rnd.randint(-20, 20) / 4.0

            def noargs(k1=k1, k2=k2):
                a, b = prt.PrivVal(k1), fx.PrivValFxp(k2)
                return [a * 2, {"f": b + 1, "c": a < 5}, "tag", 7]
            nev0 = len(recorder.events)
            try:
                got0 = prt.snark(noargs)()
            except Exception as e:  # noqa
                R.violation("no-argument-call-raised", "a wrapped function without arguments raised %r" % (e,), k1=k1, k2=k2)
                got0 = None
            if got0 is not None:
                pubs0 = [e[2] % p for e in recorder.events[nev0:] if e[0] == "pub"]
                want0 = [(2 * k1) % p, int((k2 + 1) * (1 << res_bits)) % p, int(k1 < 5)]
                R.count("no_argument_calls_judged")
                R.case(cell="no-arguments|res%d" % res_bits, key=("noargs", k1, k2, res_bits, p))
                flat0 = flatten([got0], [])
                if pubs0 != want0:
                    R.violation("public-outputs-differ:no-arguments", "public values %s, secret results in order %s" % (pubs0, want0), k1=k1, k2=k2, resolution=res_bits, p=p)
                elif any(hasattr(x, "lc") for x in flat0) or not same_plain(got0, [2 * k1, {"f": k2 + 1, "c": int(k1 < 5)}, "tag", 7]):
                    R.violation("returned-structure-differs:no-arguments", "wrapped call without arguments returned %s" % (repr(got0)[:200],), k1=k1, k2=k2, resolution=res_bits, p=p)
            recorder.reset()
        # kwargs refused
        if case_no % 10 == 0:
            for kw in ({"b": 2}, {"b": 0}, {"b": None}, {"b": False}, {"b": []}, {"b": 0.0}, {"b": ""}):
                npub_before = sum(1 for e in recorder.events if e[0] == "pub")
                try:
                    prt.snark(lambda a, c, b=1: a)(3, [4, 2.5], **kw)
                    R.violation("kwargs-accepted", "keyword argument %r was accepted" % (kw,), kwargs=repr(kw))
                except ValueError:
                    R.count("kwargs_refused")
                except Exception as e:  # noqa
                    R.violation("kwargs-accepted", "keyword argument %r was not refused with ValueError but led to %r" % (kw, e), kwargs=repr(kw))
                if sum(1 for e in recorder.events if e[0] == "pub") != npub_before:
                    R.violation("refused-call-published-values", "a call refused for its keyword argument %r had already made its positional arguments public" % (kw,), kwargs=repr(kw))
    return R.export()


def same_plain(a, b):
    if isinstance(b, (list, tuple)):
        return type(a) is type(b) and len(a) == len(b) and all(same_plain(x, y) for x, y in zip(a, b))
    if isinstance(b, dict):
        return isinstance(a, dict) and list(a) == list(b) and all(same_plain(a[k], b[k]) for k in b)
    if hasattr(a, "lc") or hasattr(a, "value"):
        return False          # a secret object was returned where a plain value is due (never compare those with ==)
    if isinstance(b, str) or isinstance(a, str):
        return a == b
    return a == b


def classify_order(got, exp, p, which):
    if sorted(got) == sorted(v % p for v in exp):
        return "public-%s-out-of-order" % which
    return "public-%s-differ" % which


def replay(path):
    d = json.load(open(path))
    print(json.dumps(d, indent=1)[:3000])
    return 0
