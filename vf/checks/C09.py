"""C09: oblivious if/elif/else, while and for compute what native control flow computes (DESIGN.md 4/C09).

Generated source programs using the block-structured API on secret conditions, each with a native-control-flow twin
rendered from the same tree; differential on final tracked variables, constraint evaluation on the recorded witness,
canonical-trace comparison across input vectors that take different branches."""
import json
import zlib
import random

from vf import common, shard

PROP = "C09"
RULE = ("one case = one generated block-API program (nesting depth <= 3 of if/elif/else, while+breakif with a public bound, "
        "for over _range(secret, max) with/without checkstopmax, new variables defined in all branches) run on one input vector "
        "and compared with its native twin; non-trivial = >=1 secret condition was evaluated and >=1 tracked variable compared; "
        "distinct by (source, inputs); cell = construct kinds present x which branches/iterations the inputs took")


class Node:
    pass


class TreeGen:
    VARS = ["a", "b", "c"]

    def __init__(self, rnd):
        self.rnd = rnd
        self.nk = 0
        self.extra = []       # variables defined in all branches of some if
        self.kinds = set()
        self.lists = rnd.random() < 0.5     # tracked list / nested-list variables updated in place
        # plain Python lists S, T of secrets that branches assign to the tracked variable l / select between: natively such a
        # list is what it was when the branch is not taken.  (No element writes through l then: the API has no aliasing.)
        self.shared = self.lists and rnd.random() < 0.5
        if self.shared:
            self.ELEMS = [e for e in TreeGen.ELEMS if not e.startswith("l[")]
        # a tracked Array written in place at a secret index inside regions (the write happens on the object, the merge at the
        # end of the region has to undo it when the region was not taken)
        self.arrays = rnd.random() < 0.3
        # a fixed-point tracked variable that branches assign integers to (and the other way round at the merge)
        self.fxp = rnd.random() < 0.3

    ELEMS = ["l[0]", "l[1]", "l[2]", "m[0][0]", "m[0][1]", "m[1][0]", "m[1][1]"]

    def atom(self, vars_):
        r = self.rnd
        if self.lists and r.random() < 0.3:
            return r.choice(self.ELEMS)
        return r.choice(vars_)

    def expr(self, vars_):
        r = self.rnd
        v = self.atom(vars_)
        w = self.atom(vars_)
        k = r.randint(1, 3)
        return r.choice(["{%s} + {%s}" % (v, w), "{%s} + %d" % (v, k), "{%s} - %d" % (v, k), "{%s} * 2" % v, "{%s} - {%s}" % (v, w),
                         "%d" % k, "{%s}" % w, "{%s} * {%s}" % (v, w) if r.random() < 0.3 else "{%s} + 1" % v])

    def cond(self, vars_):
        r = self.rnd
        v, w = self.atom(vars_), self.atom(vars_)
        k = r.randint(0, 6)
        base = r.choice(["{%s} < {%s}" % (v, w), "{%s} <= %d" % (v, k), "{%s} == %d" % (v, k), "{%s} != {%s}" % (v, w),
                         "{%s} > %d" % (v, k), "{%s} >= {%s}" % (v, w)])
        if r.random() < 0.25:
            v2 = r.choice(vars_)
            base = "(%s) %s ({%s} != %d)" % (base, r.choice(["&", "|"]), v2, r.randint(0, 4))
        return base

    def flag(self, vars_):
        """a condition for _elif / _breakif: now and then an integer-typed 0/1 wire (a flag kept in an integer, a product of flags)
        instead of a boolean-typed one - both positions accept it"""
        c = self.cond(vars_)
        if self.rnd.random() < 0.25:
            self.kinds.add("integer-typed-condition")
            return self.rnd.choice(["((%s) + 0)", "((%s) * 1)", "((%s) * ({a} == {a}))"]) % c
        return c

    def stmts(self, depth, vars_, in_for=False):
        out = []
        for _ in range(self.rnd.randint(1, 3)):
            out.append(self.stmt(depth, vars_, in_for))
        return out

    def stmt(self, depth, vars_, in_for):
        r = self.rnd
        x = r.random()
        if depth >= 3 or x < 0.45:
            if r.random() < 0.06:
                # a helper guarded by a secret condition, built once and called twice; its body is only valid when the condition holds
                self.kinds.add("guarded-helper-called-twice")
                a, b = r.choice(vars_), r.choice(vars_)
                free = [v for v in vars_ if v not in (a, b)]       # the helper's condition is fixed when it is built: its inputs stay as they are
                if free:
                    return ("guarded_twice", a, b, r.choice(free), r.choice(free))
            if self.fxp and r.random() < 0.25:
                self.kinds.add("fixed-point-variable-assigned-integers")
                return ("assign_raw", "f", r.choice(["{a} + 0", "{b} + 1", "{f} + 1", "{f} + {a}", "{c} * 2", "{f} * 2"]))
            if self.arrays and r.random() < 0.3:
                self.kinds.add("array-write-at-secret-index")
                if r.random() < 0.4:
                    # a matrix: both indices secret, or a public row and a secret column
                    return ("arr2_write", r.choice(vars_ + ["@0", "@1"]), r.choice(vars_), self.expr(vars_))
                return ("arr_write", r.choice(vars_), self.expr(vars_))
            if self.shared and r.random() < 0.3:
                self.kinds.add("shared-list")
                if r.random() < 0.5:
                    return ("assign_raw", "l", r.choice(["S", "T"]))
                return ("select_list", "l", self.cond(vars_), r.choice([("S", "T"), ("T", "S"), ("S", "{l}"), ("{l}", "T")]))
            if self.lists and not self.shared and depth > 0 and r.random() < 0.08:
                # a list that changes its length inside a region: cannot be done obliviously - the library must refuse it
                # loudly (RuntimeError when the region closes), never hand back a list that differs from the native one
                self.kinds.add("list-length-change-in-region")
                return ("assign_raw", "l", r.choice(["{l} + [{a}]", "[{b}] + {l}", "{l} + [{c}, {a}]"]))
            if self.lists and r.random() < 0.35:
                self.kinds.add("list-element-write")
                return ("assign", r.choice(self.ELEMS), self.expr(vars_))
            return ("assign", r.choice(vars_), self.expr(vars_))
        if x < 0.72:
            self.kinds.add("if")
            n = ("if", self.cond(vars_), self.stmts(depth + 1, vars_, in_for), [], None)
            elifs = []
            while r.random() < (0.4 if not elifs else 0.5) and len(elifs) < 3:
                self.kinds.add("elif" if not elifs else "several-elifs")
                c2 = self.flag(vars_)
                if r.random() < 0.15:
                    self.kinds.add("public-elif-condition")
                    c2 = r.choice(["1", "0", "True"])
                elifs.append((c2, self.stmts(depth + 1, vars_, in_for)))
            els = None
            if r.random() < 0.55:
                self.kinds.add("else")
                els = self.stmts(depth + 1, vars_, in_for)
            newvar = None
            if els is not None and depth == 0 and r.random() < 0.08:
                # a new variable defined in some branches only (never in the first / only in the first): the library has to
                # refuse it when the statement closes - a variable that exists depending on a secret is not oblivious
                self.kinds.add("newvar-in-some-branches-only")
                nv = "d%d" % len(self.extra)
                self.extra.append(nv)
                target = r.choice(["else", "then"] + (["elif"] if elifs else []))
                if target == "else":
                    els.append(("assign_new", nv, self.expr(vars_)))
                elif target == "then":
                    n[2].append(("assign_new", nv, self.expr(vars_)))
                else:
                    elifs[-1][1].append(("assign_new", nv, self.expr(vars_)))
                return ("if", n[1], n[2], elifs, els, None)
            if els is not None and depth == 0 and r.random() < 0.6:
                # a new variable defined in every branch
                self.kinds.add("newvar")
                newvar = "d%d" % len(self.extra)
                self.extra.append(newvar)
                n[2].append(("assign_new", newvar, self.expr(vars_)))
                for _, b in elifs:
                    b.append(("assign_new", newvar, self.expr(vars_)))
                els.append(("assign_new", newvar, self.expr(vars_)))
            return ("if", n[1], n[2], elifs, els, newvar)
        if x < 0.87:
            self.kinds.add("while")
            self.nk += 1
            kname = "k%d" % self.nk
            body = self.stmts(depth + 1, vars_, in_for)
            brk = None
            if r.random() < 0.5:
                self.kinds.add("breakif")
                brk = (r.randint(0, len(body)), self.flag(vars_))
                if r.random() < 0.3:
                    self.kinds.add("breakif-public-condition")
                    brk = (brk[0], "%s == %d" % (kname, r.randint(1, 2)))
            wcond = self.cond(vars_)
            if r.random() < 0.15:
                # `while True` with a secret break condition: the loop is opened by a public condition
                self.kinds.add("public-loop-condition-secret-break")
                wcond = "True"
                # (an integer-typed break flag in a loop opened by a public condition is refused loudly by the library -
                # "Wrong type for if_then_else condition" -: outside what the block API accepts, not generated)
                brk = (brk[0] if brk else r.randint(0, len(body)), self.cond(vars_))
            return ("while", wcond, body, r.randint(1, 3), kname, brk)
        self.kinds.add("for")
        self.nk += 1
        iname = "i%d" % self.nk
        chk = r.random() < 0.4
        if chk:
            self.kinds.add("checkstopmax")
        body = self.stmts(depth + 1, vars_, True)
        brk = None
        if r.random() < 0.35:
            self.kinds.add("breakif-in-for")
            brk = (r.randint(0, len(body)), self.flag(vars_))
            if r.random() < 0.3:
                self.kinds.add("breakif-public-condition")
                brk = (brk[0], "%s >= %d" % (iname, r.randint(0, 2)))
        start = r.choice([None, None, 0, 1, 2])
        if start is not None:
            self.kinds.add("range-with-start")
        if r.random() < 0.15:
            # a public bound (an ordinary range) with a secret break condition
            self.kinds.add("public-loop-bound-secret-break")
            brk = (brk[0] if brk else r.randint(0, len(body)), self.cond(vars_))
            if r.random() < 0.3:
                # an empty public range (`_range(0)`, `_range(2, 2)`): natively the body never runs; the library may refuse the
                # publicly dead loop loudly ("unreachable code"), but it may not run the body
                self.kinds.add("empty-public-range")
                return ("for", "@pub", start or 0, body, iname, False, True, brk, start)
            return ("for", "@pub", r.randint(1, 3) + (start or 0), body, iname, False, r.random() < 0.5, brk, start)
        return ("for", r.choice(vars_), r.randint(1, 3) + (start or 0), body, iname, chk, r.random() < 0.5, brk, start)

    def program(self):
        return self.stmts(0, list(self.VARS))


def render(tree, api):
    """api=True: block API source; api=False: native twin"""
    lines = []

    def ex(e):
        out = e
        for v in ["a", "b", "c", "l", "m", "f"] + ["d%d" % i for i in range(10)] + TreeGen.ELEMS:
            out = out.replace("{%s}" % v, ("_.%s" % v) if api else v)
        return out

    def emit(ind, s):
        lines.append("    " * ind + s)

    def block(stmts, ind):
        for st in stmts:
            k = st[0]
            if k in ("assign", "assign_new"):
                rhs = ex(st[2])
                if api and rhs.lstrip("-").isdigit():
                    rhs = "ConstVal(%s)" % rhs      # keep tracked variables secret-typed so that every condition is a secret one
                if not api:
                    rhs = "chk(%s)" % rhs
                emit(ind, "%s = %s" % (("_.%s" % st[1]) if api else st[1], rhs))
            elif k == "guarded_twice":
                _, a, b, t1, t2 = st
                self_id = len(lines)
                if api:
                    emit(ind, "_g%d = guarded(_.%s != 0)(lambda: (_.%s * _.%s) / _.%s)" % (self_id, b, a, b, b))
                    emit(ind, "_.%s = if_then_else(_.%s != 0, _g%d(), _.%s)" % (t1, b, self_id, t1))
                    emit(ind, "_.%s = if_then_else(_.%s != 0, _g%d() + 1, _.%s)" % (t2, b, self_id, t2))
                else:
                    emit(ind, "if %s != 0: %s = chk((%s * %s) // %s)" % (b, t1, a, b, b))
                    emit(ind, "if %s != 0: %s = chk((%s * %s) // %s + 1)" % (b, t2, a, b, b))
            elif k == "arr2_write":
                rhs = ex(st[3])
                row_api = st[1][1:] if st[1].startswith("@") else "_.%s %% 2" % st[1]
                row_twin = st[1][1:] if st[1].startswith("@") else "%s %% 2" % st[1]
                if api:
                    emit(ind, "_.arr2[%s, _.%s %% 2] = %s" % (row_api, st[2], ("ConstVal(%s)" % rhs) if rhs.lstrip("-").isdigit() else rhs))
                else:
                    emit(ind, "arr2[%s][%s %% 2] = chk(%s)" % (row_twin, st[2], rhs))
            elif k == "arr_write":
                rhs = ex(st[2])
                if api:
                    emit(ind, "_.arr[_.%s %% 3] = %s" % (st[1], ("ConstVal(%s)" % rhs) if rhs.lstrip("-").isdigit() else rhs))
                else:
                    emit(ind, "arr[%s %% 3] = chk(%s)" % (st[1], rhs))
            elif k == "assign_raw":
                emit(ind, "%s = %s" % (("_.%s" % st[1]) if api else st[1], ex(st[2])))
            elif k == "select_list":
                _, tgt, c, (tv, fv) = st
                if api:
                    lazy = zlib.crc32(repr((tgt, c, tv, fv)).encode()) % 3 == 0       # branches given as callables that return the lists
                    style = zlib.crc32(repr((fv, tv, c)).encode()) % 3 if lazy else -1
                    if style == 1:
                        # lazily evaluated branches need not be lambdas: functools.partial objects, instances with __call__
                        emit(ind, "_.%s = if_then_else(%s, functools.partial(lambda v: v, %s), _Call(%s))" % (tgt, ex(c), ex(tv), ex(fv)))
                    else:
                        emit(ind, "_.%s = if_then_else(%s, %s%s, %s%s)" % (tgt, ex(c), "lambda: " if lazy else "", ex(tv), "lambda: " if lazy else "", ex(fv)))
                else:
                    emit(ind, "%s = list(%s) if (%s) else list(%s)" % (tgt, ex(tv), ex(c), ex(fv)))
            elif k == "if":
                _, c, then, elifs, els, newvar = st
                if api:
                    emit(ind, "if _if(%s, ctx=_):" % ex(c))
                    block(then, ind + 1)
                    for c2, b in elifs:
                        emit(ind, "if _elif(lambda: %s, ctx=_):" % ex(c2))
                        block(b, ind + 1)
                    if els is not None:
                        emit(ind, "if _else(ctx=_):")
                        block(els, ind + 1)
                    emit(ind, "_endif(ctx=_)")
                else:
                    emit(ind, "if %s:" % ex(c))
                    block(then, ind + 1)
                    for c2, b in elifs:
                        emit(ind, "elif %s:" % ex(c2))
                        block(b, ind + 1)
                    if els is not None:
                        emit(ind, "else:")
                        block(els, ind + 1)
            elif k == "while":
                _, c, body, mx, kv, brk = st
                emit(ind, "%s = 0" % kv)
                if api:
                    emit(ind, "while _while(%s, ctx=_) and %s < %d:" % (ex(c), kv, mx))
                else:
                    emit(ind, "while (%s) and %s < %d:" % (ex(c), kv, mx))
                emit(ind + 1, "%s += 1" % kv)
                for i, b in enumerate(body + [None]):
                    if brk is not None and brk[0] == i:
                        if api:
                            emit(ind + 1, "_breakif(%s, ctx=_)" % ex(brk[1]))
                        else:
                            emit(ind + 1, "if %s: break" % ex(brk[1]))
                    if b is not None:
                        block([b], ind + 1)
                if api:
                    emit(ind, "_endwhile(ctx=_)")
            elif k == "for":
                _, sv, mx, body, iv, chk, use_i, fbrk, start = st
                if sv == "@pub":
                    if api:
                        emit(ind, "for %s in _range(%s%d, ctx=_):" % (iv, "" if start is None else "%d, " % start, mx))
                    else:
                        emit(ind, "_brk%s = False" % iv)
                        emit(ind, "for %s in range(%d, %d):" % (iv, start or 0, mx))
                elif api:
                    emit(ind, "for %s in _range(%s_.%s, max=%d, ctx=_%s):" % (iv, "" if start is None else "%d, " % start, sv, mx, ", checkstopmax=True" if chk else ""))
                else:
                    emit(ind, "if %s < %d: NEG.append(%s)" % (sv, start or 0, sv))
                    emit(ind, "_n%s, _brk%s = %s, False" % (iv, iv, sv))
                    emit(ind, "for %s in range(%d, min(%s, %d)):" % (iv, start or 0, sv, mx))
                if use_i:
                    emit(ind + 1, "%s = %s + %s" % (("_.%s" % sv) if False else (("_.a" if api else "a")), ("_.a" if api else "a"), iv))
                for i, b in enumerate(body + [None]):
                    if fbrk is not None and fbrk[0] == i:
                        if api:
                            emit(ind + 1, "_breakif(%s, ctx=_)" % ex(fbrk[1]))
                        else:
                            emit(ind + 1, "if %s:" % ex(fbrk[1]))
                            emit(ind + 2, "_brk%s = True" % iv)
                            emit(ind + 2, "break")
                    if b is not None:
                        block([b], ind + 1)
                if api:
                    emit(ind, "_endfor(ctx=_)")
                elif chk:
                    # the maximum cut the loop short only if it neither finished nor was broken out of
                    emit(ind, "if _n%s > %d and not _brk%s: raise TwinMustRaise('stop exceeds max')" % (iv, mx, iv))

    block(tree, 0)
    return lines


class TwinMustRaise(Exception):
    pass


class TwinOutOfDomain(Exception):
    """a tracked value left the range in which every comparison of the program fits the bitlength"""


def chk(v):
    if isinstance(v, int) and abs(v) >= 1 << 28:
        raise TwinOutOfDomain(v)
    return v


def main():
    tier = common.tier()
    nshards, nprogs = (16, 25) if tier == "quick" else (32, 500)
    jobs = [dict(seed="%d/%s/%d" % (common.seed(), PROP, s), nprogs=nprogs) for s in range(nshards)]
    R = common.Run(PROP, "exploration", RULE)
    for job, res, err in shard.run_jobs("vf.checks.C09", "worker", jobs, timeout=3600, nproc=16):
        if err:
            R.inconc("worker %s: %s" % (job["seed"], err))
            continue
        R.merge(res)
    R.assumptions = ["loop bounds and counters are public Python ints as in the library's examples; for-loop stop values are non-negative",
                     "tracked values stay far inside the bitlength (32) so that no comparison leaves the documented domain"]
    return R.finish(require_counters=("variables_compared", "constraints_evaluated", "trace_pairs_compared", "secret_conditions"))


def worker(job):
    from vf import boot, recorder, r1cs
    from vf.gen import prog as G
    rt = boot.attach()
    import pysnark.runtime
    N = boot.Neutral()
    R = common.Run(PROP, "exploration", RULE)
    moduli = [recorder.BN254, recorder.BLS381, recorder.C25519]
    for n in range(job["nprogs"]):
        rnd = random.Random("%s/%d" % (job["seed"], n))
        tg = TreeGen(rnd)
        tree = tg.program()
        head_api = ["_ = BranchingValues()", "_.a = PrivVal(I[0])", "_.b = PrivVal(I[1])", "_.c = PrivVal(I[2])"]
        head_twin = ["a = I[0]", "b = I[1]", "c = I[2]"]
        if tg.lists:
            head_api += ["_.l = [_.a + 0, _.b + 1, ConstVal(3)]", "_.m = [[_.a + 1, _.b + 0], [_.c + 0, ConstVal(2)]]"]
            head_twin += ["l = [a + 0, b + 1, 3]", "m = [[a + 1, b + 0], [c + 0, 2]]"]
        if tg.fxp:
            head_api += ["_.f = PrivValFxp(I[0] / 2.0)"]
            head_twin += ["f = I[0] / 2.0"]
        if tg.arrays:
            head_api += ["_.arr = Array([_.a + 1, _.b + 2, ConstVal(9)])", "_.arr2 = Array([Array([_.a + 0, ConstVal(1)]), Array([_.b + 0, _.c + 0])])"]
            head_twin += ["arr = [a + 1, b + 2, 9]", "arr2 = [[a + 0, 1], [b + 0, c + 0]]"]
        if tg.shared:
            head_api += ["S = [_.a + 2, _.b + 3, ConstVal(5)]", "T = [_.c + 1, ConstVal(7), _.a + 0]"]
            head_twin += ["S = [a + 2, b + 3, 5]", "T = [c + 1, 7, a + 0]"]
        bystanders = {}
        if rnd.random() < 0.4:
            # plain Python objects kept in the context that no block touches: they must come out as they went in (same class, same value)
            tg.kinds.add("plain-bystanders")
            for nm, lit in rnd.sample([("pf", "0.1"), ("pn", "None"), ("ps", "'tag'"), ("pi", "7"), ("pg", "2.5"), ("pz", "0.0"), ("pb", "True")], rnd.randint(1, 4)):
                bystanders[nm] = eval(lit)
                head_api += ["_.%s = %s" % (nm, lit)]
                head_twin += ["%s = %s" % (nm, lit)]
        implicit = rnd.random() < 0.25
        if implicit:
            # context found implicitly: a helper function whose own BranchingValues is called `__`, no ctx= arguments, and a
            # decoy `_` at module level that must not be touched
            tg.kinds.add("implicit-context-in-function")
            body = [ln.replace(", ctx=_", "").replace("(ctx=_)", "()").replace("_.", "__.").replace("_ = BranchingValues()", "__ = BranchingValues()")
                    for ln in head_api + render(tree, True)]
            api_src = "\n".join(["_ = BranchingValues()", "_.a = PrivVal(100)", "_.b = PrivVal(200)", "_.c = PrivVal(300)", "def _prog(I):"] +
                                ["    " + ln for ln in body] + (["    global SHARED", "    SHARED = [S, T]"] if tg.shared else []) +
                                ["    return __", "RES = _prog(I)", "DECOY = _"]) + "\n"
        else:
            api_src = "\n".join(head_api + render(tree, True) + ["RES = _"] + (["SHARED = [S, T]"] if tg.shared else [])) + "\n"
        twin_src = "\n".join(head_twin + render(tree, False)) + "\n"
        prog = G.Prog(api_src, [], 32, 4)
        try:
            chunks = G.compile_chunks(api_src)
            twin_code = compile(twin_src, "<vftwin>", "exec")
        except SyntaxError as e:
            R.inconc("generator produced invalid source: %s" % e)
            continue
        p = rnd.choice(moduli)
        kinds = "+".join(sorted(tg.kinds)) or "straight"
        completed = []
        vectors = [[rnd.randint(0, 6), rnd.randint(0, 6), rnd.randint(0, 6)] for _ in range(5)] + [[0, 0, 0], [rnd.randint(0, 3)] * 3]
        user_ignore = [False] * len(vectors)
        vectors = vectors + [list(v) for v in vectors[:2]]
        user_ignore += [True, True]          # the same program with the user's own ignore_errors(True) in effect (as examples/sudoku.py does)
        for inputs, uign in zip(vectors, user_ignore):
            tns = {"I": list(inputs), "TwinMustRaise": TwinMustRaise, "NEG": [], "chk": chk}
            texc = None
            try:
                exec(twin_code, tns)
            except TwinMustRaise as e:
                texc = e
            except TwinOutOfDomain:
                R.count("twin_out_of_domain_not_judged")
                continue
            if uign and (texc is not None or tns["NEG"]):
                continue       # with checks off the library does not raise where the twin must
            ncond0 = recorder.calls["add_constraint"]
            out = G.run_api(prog, inputs, N, modulus=p, chunks=chunks, ignore=uign)
            if uign:
                R.count("runs_with_user_ignore_errors")
            R.count("runs")
            key = (api_src, tuple(inputs))
            det = dict(src=api_src, twin=twin_src, inputs=inputs, p=p)
            nsecret = api_src.count("_if(") + api_src.count("_elif(") + api_src.count("_while(") + api_src.count("_range(")
            R.count("secret_conditions", nsecret)
            path = branch_signature(tns)
            if tns["NEG"]:
                # a for loop met a negative secret bound: range(negative) is empty, the library iterates up to max
                R.count("for_negative_bound_runs")
                same = out.exc is None and all(getattr(out.ns["RES"].vals.get(k), "value", None) == tns[k] for k in ("a", "b", "c"))
                if not same:
                    R.violation("for-loop-negative-secret-bound", "for over _range([start,] secret below start, max): native range is empty, the oblivious loop runs on to max (%s)" % (
                        repr(out.exc)[:80] if out.exc else "final values differ"), **det)
                R.case(cell="%s|negative-bound" % kinds, key=key)
                continue
            if texc is not None:
                if out.exc is None:
                    R.violation("checkstopmax-not-enforced", "stop exceeds max but the program completed", **det)
                else:
                    R.count("both_raise")
                R.case(cell="%s|raise" % kinds, key=key)
                continue
            if out.exc is not None and "list-length-change-in-region" in tg.kinds and isinstance(out.exc, RuntimeError) \
                    and "lists of different length" in str(out.exc):
                R.count("list_length_change_refused_loudly")
                R.case(cell="%s|refused" % kinds, key=key)
                continue
            if out.exc is not None and "empty-public-range" in tg.kinds and isinstance(out.exc, RuntimeError) and "unreachable code" in str(out.exc):
                R.count("empty_public_range_refused_loudly")
                R.case(cell="%s|refused" % kinds, key=key)
                continue
            if "newvar-in-some-branches-only" in tg.kinds:
                R.case(cell="%s|refusal-expected" % kinds, key=key)
                if isinstance(out.exc, RuntimeError) and ("spurious value" in str(out.exc) or "did not set value" in str(out.exc)):
                    R.count("inconsistent_branch_variables_refused")
                elif out.exc is None:
                    R.violation("inconsistent-branch-variables-accepted", "a variable defined in some branches only was accepted: after the statement it exists whatever the secret conditions were", **det)
                else:
                    R.violation(classify_raise(out.exc, api_src), "block-API program raised %s: %s" % (type(out.exc).__name__, str(out.exc)[:150]), **det)
                continue
            if out.exc is not None:
                R.case(cell="%s|api-raised" % kinds, key=key)
                R.violation(classify_raise(out.exc, api_src), "block-API program raised %s: %s (the native twin completes)" % (
                    type(out.exc).__name__, str(out.exc)[:150]), **det)
                continue
            # final tracked variables
            ctx = out.ns["RES"]
            ncmp = 0
            bad = None
            if implicit and [plainval(out.ns["DECOY"].vals.get(k)) for k in ("a", "b", "c")] != [100, 200, 300]:
                bad = ("_", "the module-level BranchingValues of another name was modified by a helper function's blocks")
            for name in sorted(ctx.vals):
                if name not in tns:
                    bad = (name, "defined by the API program only")
                    break
                v = ctx.vals[name]
                av = plainval(v)
                ncmp += 1
                if av != tns[name]:
                    bad = (name, "API %r, native %r" % (av, tns[name]))
                    break
                if name in bystanders and type(v) is not type(bystanders[name]):
                    bad = (name, "a plain %s that no block touched came out as %s" % (type(bystanders[name]).__name__, type(v).__name__))
                    break
            for name in ("a", "b", "c") + tuple(tg.extra):
                if name in tns and name not in ctx.vals and name in ("a", "b", "c"):
                    bad = (name, "missing after the API program")
            if tg.shared and bad is None:
                ncmp += 2
                R.count("shared_lists_compared", 2)
                if plainval(out.ns["SHARED"]) != [tns["S"], tns["T"]]:
                    bad = ("S / T", "plain lists that branches assigned / selected from were modified: API %r, native %r" % (plainval(out.ns["SHARED"]), [tns["S"], tns["T"]]))
            R.count("variables_compared", ncmp)
            R.case(cell=["%s|%s" % (kinds, path)], key=key, nontrivial=ncmp > 0 and nsecret > 0)
            R.sample(dict(src=api_src, inputs=inputs, final={k: tns[k] for k in ("a", "b", "c")}), cap=4)
            if bad:
                R.violation("final-value-differs:list-length-change" if "list-length-change-in-region" in tg.kinds and bad[0] == "l" else "final-value-differs",
                            "variable %s: %s" % bad, **det)
            snap = out.snap
            unsat = r1cs.unsatisfied(snap["constraints"], snap["values"], snap["p"])
            R.count("constraints_evaluated", len(snap["constraints"]))
            if unsat or snap["online_bad"]:
                R.violation("unsatisfied-constraint", "constraint %s unsatisfied" % (unsat[:3] or snap["online_bad"][:3]), **det)
            completed.append((inputs, out))
        if len(completed) >= 2:
            ref_tr = r1cs.canon_trace(completed[0][1].snap)
            for inputs, out in completed[1:]:
                R.count("trace_pairs_compared")
                tr = r1cs.canon_trace(out.snap)
                if tr != ref_tr:
                    pos = next((i for i, (x, y) in enumerate(zip(tr, ref_tr)) if x != y), min(len(tr), len(ref_tr)))
                    R.violation("trace-depends-on-branches", "canonical traces differ at event %d (lengths %d vs %d)" % (pos, len(ref_tr), len(tr)),
                                src=api_src, inputs_a=completed[0][0], inputs_b=inputs, p=p)
                    break
    return R.export()


def plainval(v):
    if isinstance(v, list):
        return [plainval(x) for x in v]
    if type(v).__name__ == "LinCombFxp":
        import pysnark.fixedpoint as _fx
        q = v.lc.value / (1 << _fx.resolution)
        return int(q) if q == int(q) else q
    if hasattr(v, "arr") and isinstance(getattr(v, "arr"), list):
        return [plainval(x) for x in v.arr]       # a pysnark Array
    if isinstance(v, int):
        return v
    if hasattr(v, "value"):
        return v.value
    return getattr(getattr(v, "lc", v), "value", v)


def branch_signature(tns):
    return "k" + "".join(str(tns[k]) for k in sorted(tns) if k[0] == "k" and k[1:].isdigit())[:6] + "i" + \
        "".join(str(tns[k]) for k in sorted(tns) if k[0] == "i" and k[1:].isdigit())[:6]


def classify_raise(exc, src):
    if isinstance(exc, RuntimeError) and "Wrong type for if_then_else condition" in str(exc) and ("_while(True" in src or "_range(" in src):
        return "api-raised:RuntimeError:public-loop-secret-break"
    if isinstance(exc, AttributeError) and "lineno" in str(exc):
        return "while-inside-for-crashes"
    return "api-raised:" + type(exc).__name__


def replay(path):
    d = json.load(open(path))
    det = d["detail"]
    from vf import boot
    boot.attach()
    from vf.gen import prog as G
    N = boot.Neutral()
    for key in ("inputs", "inputs_a", "inputs_b"):
        if key in det:
            out = G.run_api(G.Prog(det["src"], [], 32, 0), det[key], N, modulus=int(det["p"]))
            print(key, det[key], "->", repr(out.exc), {k: getattr(v, "value", v) for k, v in out.ns["_"].vals.items()} if "_" in out.ns else None)
    print(det["src"])
    print(det.get("twin"))
    return 0
