"""C08: guard state is restored on every exit path and nests as a conjunction (DESIGN.md 4/C08).

Generated source with random nesting of the three region mechanisms (guarded(), lazy if_then_else, block API).  Probes at
the API boundary snapshot the triple (guard, _ignore_errors, LinComb.ONE) at region entry and compare it *by identity* at
region end; wrappers around add_guard/restore_guard check the conjunction invariants inside regions and that a raising
add_guard leaves the triple untouched.  Aborts: natural (failing assertion under a true guard) and injected - a
sys.monitoring LINE failpoint raises at every statement index of every generated body (enumeration, not a sample)."""
import json
import random
import sys

from vf import common, shard

PROP = "C08"
RULE = ("one case = one execution of a generated nested-region program (depth <= 5, three mechanisms, random guard values) "
        "either undisturbed, with a natural abort, or with an exception injected at the k-th executed generated line "
        "(every k); non-trivial = >=1 region end was judged (triple compared by identity with its entry snapshot); "
        "distinct by (source, inputs, abort point); cell = mechanism x exit path (return / natural abort / injected abort) "
        "x effective guard")


class Injected(Exception):
    pass


class InjectedBase(BaseException):
    """aborts that are not Exception subclasses (KeyboardInterrupt, SystemExit, GeneratorExit, user-defined) take the same exit path"""


def main():
    tier = common.tier()
    nshards, nprogs = (16, 6) if tier == "quick" else (32, 60)
    jobs = [dict(seed="%d/%s/%d" % (common.seed(), PROP, s), nprogs=nprogs) for s in range(nshards)]
    R = common.Run(PROP, "fault_enumeration", RULE)
    for job, res, err in shard.run_jobs("vf.checks.C08", "worker", jobs, timeout=3600, nproc=16):
        if err:
            R.inconc("worker %s: %s" % (job["seed"], err))
            continue
        R.merge(res)
    R.extra["exhaustive"] = False
    from vf import lazyimport
    lazyimport.run_family(R, ['constants'], label="C08")
    R.assumptions = ["an exception crossing an *open* _if/_while block does not end that region (DESIGN.md 6.5): only regions with an end event are judged",
                     "abort points = every LINE event of the generated code objects (statement starts), enumerated per program"]
    return R.finish(require_counters=("region_ends_judged", "injected_aborts", "inside_invariants_checked", "add_guard_calls",
                                      "regions_left_by_exception", "injected_base_exception_aborts", "guard_value_trace_pairs"))


# ------------------------------------------------------------------------------------------------------------
# source generator

def conj(eff, v):
    """conjunction on {0, 1, -1 = unknown}"""
    if eff == 0 or v == 0:
        return 0
    if eff == -1 or v == -1:
        return -1
    return 1


class SrcGen:
    def __init__(self, rnd):
        self.rnd = rnd
        self.lines = []
        self.nid = 0
        self.ncond = 0
        self.conds = []        # plain values of the condition inputs, in input order after the 3 ints
        # every third program contains at least one block region that the library refuses while it closes (a variable
        # defined in one branch only): the refusal is an exception leaving the region through its closing call
        self.want_misuse = rnd.random() < 0.4
        self.catch_refusals = rnd.random() < 0.5
        self.force_misuse = False

    def fresh(self):
        self.nid += 1
        return self.nid

    def cond(self, allow_public=True):
        if allow_public and self.rnd.random() < 0.12:
            # a public condition (only a true one is accepted by the library): the region adds nothing to the guard
            return self.rnd.choice(["1", "True"]), 1
        v = self.rnd.randint(0, 1) if self.rnd.random() < 0.8 else 1
        self.conds.append(v)
        self.ncond += 1
        return "c%d" % (self.ncond - 1), v

    def emit(self, ind, s):
        self.lines.append("    " * ind + s)

    def simple(self, ind, eff, in_block):
        r = self.rnd
        k = r.random()
        if k < 0.35:
            self.emit(ind, "t%d = x0 * x1 + %d" % (self.fresh(), r.randint(0, 5)))
        elif k < 0.5:
            self.emit(ind, "t%d = (x0 < x1) & (x1 != %d)" % (self.fresh(), r.randint(0, 5)))
        elif k < 0.62:
            self.emit(ind, "t%d = x2 // (x1 + %d)" % (self.fresh(), r.randint(0, 2)))
        elif k < 0.75:
            # assertion that may fail naturally when the effective guard is true
            self.emit(ind, "x0.assert_lt(x1 + %d)" % r.randint(-2, 3))
        elif k < 0.82:
            self.emit(ind, "_.a = _.a + x0" if in_block else "t%d = abs(x2 - x0)" % self.fresh())
        elif k < 0.86 and in_block:
            # API misuse that the library reports when the region closes: a variable defined in one branch only
            self.emit(ind, "_.z%d = x0" % self.fresh())
        elif k < 0.89 and in_block:
            # ... or a list that changes its length in the region (refused while the branch is merged)
            self.emit(ind, "_.l = _.l + [x1]")
        elif k < 0.94:
            # a function wrapped with @snark that fails half-way (an application error on a public argument) and whose failure the
            # program handles on the spot: the enclosing regions carry on as they were
            self.emit(ind, "try:")
            self.emit(ind + 1, "s%d = _snk(x0, %d)" % (self.fresh(), r.randint(-4, 3)))
            self.emit(ind, "except LookupError:")
            self.emit(ind + 1, "pass")
            self.emit(ind, "__inside(0, %d)" % eff)
        else:
            self.emit(ind, "t%d = x0 / %d" % (self.fresh(), r.choice([1, 2, 3])))

    def body(self, ind, depth, eff, in_block):
        r = self.rnd
        n = r.randint(1, 3)
        made = 0
        for _ in range(n):
            if depth < 5 and r.random() < (0.55 if depth < 2 else 0.3):
                self.region(ind, depth + 1, eff)
            else:
                self.simple(ind, eff, in_block)
            made += 1
        if r.random() < 0.08:
            # the body's last act: the user switches error suppression on or off; leaving the region must undo that too
            self.emit(ind, "ignore_errors(%s)" % r.choice(["True", "False"]))

    def region(self, ind, depth, eff):
        r = self.rnd
        mech = r.choice(["guarded", "guarded", "lazy", "if", "if", "while", "for", "guarded_rec"])
        rid = self.fresh()
        if mech == "guarded_rec":
            # one guarded(cond) decorator object that is re-entered while active: a recursive function, or two functions
            # sharing the decorator that call each other
            c, v = self.cond()
            e = conj(eff, v)
            if r.random() < 0.5:
                self.emit(ind, "@guarded(%s)" % c)
                self.emit(ind, "def _b%d(n):" % rid)
                self.emit(ind + 1, "__inside(%d, %d)" % (rid, e))
                self.simple(ind + 1, e, False)
                self.emit(ind + 1, "if n:")
                self.emit(ind + 2, "_b%d(n - 1)" % rid)
                self.emit(ind + 2, "__inside(%d, %d)" % (rid, e))
                self.emit(ind + 1, "return x0 + 1")
                call = "_b%d(%d)" % (rid, r.randint(1, 2))
            else:
                self.emit(ind, "_d%d = guarded(%s)" % (rid, c))
                self.emit(ind, "@_d%d" % rid)
                self.emit(ind, "def _p%d():" % rid)
                self.emit(ind + 1, "__inside(%d, %d)" % (rid, e))
                self.body(ind + 1, depth, e, False)
                self.emit(ind + 1, "return x1")
                self.emit(ind, "@_d%d" % rid)
                self.emit(ind, "def _b%d():" % rid)
                self.emit(ind + 1, "__inside(%d, %d)" % (rid, e))
                self.emit(ind + 1, "_p%d()" % rid)
                self.emit(ind + 1, "__inside(%d, %d)" % (rid, e))
                self.simple(ind + 1, e, False)
                self.emit(ind + 1, "return x0 + 1")
                call = "_b%d()" % rid
            self.emit(ind, "__enter(%d, 'guarded', %d)" % (rid, e))
            self.emit(ind, "try:")
            self.emit(ind + 1, "g%d = %s" % (rid, call))
            self.emit(ind, "finally:")
            self.emit(ind + 1, "__leave(%d)" % rid)
        elif mech == "guarded":
            c, v = self.cond()
            self.emit(ind, "@guarded(%s)" % c)
            self.emit(ind, "def _b%d():" % rid)
            self.emit(ind + 1, "__inside(%d, %d)" % (rid, conj(eff, v)))
            self.body(ind + 1, depth, conj(eff, v), False)
            self.emit(ind + 1, "return x0 + 1")
            self.emit(ind, "__enter(%d, 'guarded', %d)" % (rid, conj(eff, v)))
            self.emit(ind, "try:")
            self.emit(ind + 1, "g%d = _b%d()" % (rid, rid))
            self.emit(ind, "finally:")
            self.emit(ind + 1, "__leave(%d)" % rid)
        elif mech == "lazy":
            c, v = self.cond()
            self.emit(ind, "def _t%d():" % rid)
            self.emit(ind + 1, "__inside(%d, %d)" % (rid, conj(eff, v)))
            self.body(ind + 1, depth, conj(eff, v), False)
            self.emit(ind + 1, "return x0 * 2")
            self.emit(ind, "def _f%d():" % rid)
            self.emit(ind + 1, "__inside(%d, %d)" % (rid, conj(eff, 1 - v)))
            self.body(ind + 1, depth, conj(eff, 1 - v), False)
            self.emit(ind + 1, "return x1")
            self.emit(ind, "__enter(%d, 'lazy', %d)" % (rid, conj(eff, v)))
            self.emit(ind, "try:")
            self.emit(ind + 1, "g%d = if_then_else(%s, _t%d, _f%d)" % (rid, c, rid, rid))
            self.emit(ind, "finally:")
            self.emit(ind + 1, "__leave(%d)" % rid)
        elif mech == "if":
            c, v = self.cond()
            self.emit(ind, "__enter(%d, 'block', %d, _)" % (rid, conj(eff, v)))
            self.emit(ind, "if _if(%s, ctx=_):" % c)
            self.emit(ind + 1, "__inside(%d, %d)" % (rid, conj(eff, v)))
            public_if = not c.startswith("c")       # a public (true) condition: further branches would be publicly dead, which the
            mis = None
            if self.force_misuse:
                # where the refusal arises: a variable defined in the first branch only (reported after the last branch was merged),
                # one defined in the else branch only or a list that grew (reported *while* a branch is being merged)
                self.force_misuse = False
                mis = r.choice(["first", "else", "grow", "grow"])
                if public_if and mis == "else":
                    mis = "first"
                if mis == "first":
                    self.emit(ind + 1, "_.z%d = x0" % self.fresh())
                elif mis == "grow":
                    self.emit(ind + 1, "_.l = _.l + [x1]")
            self.body(ind + 1, depth, conj(eff, v), True)
            rest = 1 - v
            if not public_if and r.random() < 0.4:  # library refuses in its own ways (DESIGN 6.12) - none are generated
                c2, v2 = self.cond(allow_public=False)
                self.emit(ind, "if _elif(lambda: %s, ctx=_):" % c2)
                self.emit(ind + 1, "__inside(%d, %d)" % (rid, conj(conj(eff, rest), v2)))
                self.body(ind + 1, depth, conj(conj(eff, rest), v2), True)
                rest = rest & (1 - v2)
            if not public_if and (r.random() < 0.5 or mis == "else"):
                self.emit(ind, "if _else(ctx=_):")
                self.emit(ind + 1, "__inside(%d, %d)" % (rid, conj(eff, rest)))
                if mis == "else":
                    self.emit(ind + 1, "_.z%d = x0" % self.fresh())
                self.body(ind + 1, depth, conj(eff, rest), True)
            self.emit(ind, "try:")
            self.emit(ind + 1, "_endif(ctx=_)")
            if self.catch_refusals:
                # the program survives the library's refusal of this statement and carries on inside the enclosing regions
                self.emit(ind, "except RuntimeError:")
                self.emit(ind + 1, "pass")
            self.emit(ind, "finally:")
            self.emit(ind + 1, "__leave(%d, _)" % rid)
        elif mech == "while":
            c, v = self.cond()
            n = "n%d" % rid
            self.emit(ind, "%s = 0" % n)
            self.emit(ind, "__enter(%d, 'block', %d, _)" % (rid, conj(eff, v)))
            pub_break = r.random() < 0.3
            self.emit(ind, "while _while(%s, ctx=_) and %s < %d:" % (c, n, 1 if pub_break else r.randint(1, 2)))
            self.emit(ind + 1, "%s += 1" % n)
            self.emit(ind + 1, "__inside(%d, %d)" % (rid, conj(eff, v)))
            if self.force_misuse:
                self.force_misuse = False
                self.emit(ind + 1, "_.z%d = x0" % self.fresh())     # a loop body may not introduce a variable: refused at the loop head / end
            self.body(ind + 1, depth, conj(eff, v), True)
            if pub_break:
                # a break on a public condition: everything after it in the loop is dead
                self.emit(ind + 1, "_breakif(%s, ctx=_)" % r.choice(["1", "True", "%s >= 1" % n]))
                self.emit(ind + 1, "__inside(%d, 0)" % rid)
                self.simple(ind + 1, 0, True)
            self.emit(ind, "try:")
            self.emit(ind + 1, "_endwhile(ctx=_)")
            self.emit(ind, "finally:")
            self.emit(ind + 1, "__leave(%d, _)" % rid)
        else:
            stop = r.randint(0, 3)
            self.emit(ind, "__enter(%d, 'block', -1, _)" % rid)
            self.emit(ind, "for i%d in _range(PrivVal(%d), max=%d, ctx=_):" % (rid, stop, r.randint(2, 3)))
            self.emit(ind + 1, "__inside(%d, %d)" % (rid, conj(eff, -1)))
            if self.force_misuse:
                self.force_misuse = False
                self.emit(ind + 1, "_.z%d = x0" % self.fresh())
            self.body(ind + 1, depth, conj(eff, -1), True)
            self.emit(ind, "try:")
            self.emit(ind + 1, "_endfor(ctx=_)")
            self.emit(ind, "finally:")
            self.emit(ind + 1, "__leave(%d, _)" % rid)

    def program(self):
        r = self.rnd
        self.lines = []
        ntop = r.randint(1, 3)
        for it in range(ntop):
            if it == ntop - 1:
                self.force_misuse = self.want_misuse      # in the last top-level item, so that the rest of the program still runs
            if r.random() < 0.8:
                self.region(0, 1, 1)
            else:
                self.simple(0, 1, False)
        head = ["x0 = PrivVal(I[0])", "x1 = PrivVal(I[1])", "x2 = PrivVal(I[2])"]
        head += ["c%d = PrivValBool(I[%d])" % (k, 3 + k) for k in range(self.ncond)]
        head += ["_ = BranchingValues()", "_.a = x2 + 0", "_.l = [x0 + 0]"]
        # (the helper fails on a public argument, i.e. in the same way whatever the secret conditions are)
        head += ["@snark", "def _snk(a, b):", "    t = a * b + 1", "    if b.value < 0:", "        raise LookupError('negative table index')", "    return t"]
        if r.random() < 0.12:
            # a context value that cannot be copied (the backup every region entry takes fails): the region never starts, and
            # nothing of it may stay behind
            head += ["_.gen = (k for k in range(3))"]
        ints = [r.randint(0, 5), r.randint(0, 6), r.randint(0, 20)]
        return "\n".join(head + self.lines) + "\n", ints + self.conds


# ------------------------------------------------------------------------------------------------------------
# monitors

class Monitor:
    def __init__(self, rt, br, R):
        self.rt, self.br, self.R = rt, br, R
        self.orig_add, self.orig_restore = rt.add_guard, rt.restore_guard
        self.reset()
        mon = self

        def add_guard(cond):
            before = mon.triple()
            try:
                bak = mon.orig_add(cond)
            except BaseException:
                after = mon.triple()
                R.count("add_guard_raised")
                if not mon.same(before, after):
                    mon.problems.append(("add-guard-raised-but-changed-state", "add_guard(%r) raised and left %s" % (cond, mon.fmt(after))))
                raise
            R.count("add_guard_calls")
            mon.shadow.append(dict(before=before, cond=cond, bak=bak))
            mon.check_inside_after_add(before, cond)
            return bak

        def restore_guard(bak):
            mon.orig_restore(bak)
            R.count("restore_guard_calls")
            ent = None
            for i in range(len(mon.shadow) - 1, -1, -1):
                if mon.shadow[i]["bak"] is bak:
                    ent = mon.shadow[i]
                    del mon.shadow[i:]
                    break
            if ent is None:
                mon.problems.append(("restore-without-enter", "restore_guard called with a tuple no add_guard returned"))
                return
            if not mon.same(ent["before"], mon.triple()):
                mon.problems.append(("restore-not-identical", "after restore_guard: %s, at entry: %s" % (mon.fmt(mon.triple()), mon.fmt(ent["before"]))))

        rt.add_guard = add_guard
        rt.restore_guard = restore_guard
        br.add_guard = add_guard
        br.restore_guard = restore_guard

    base_ignore = False

    def reset(self):
        self.shadow = []
        self.regions = {}
        self.open_blocks = 0
        self.problems = []
        self.judged = 0
        self.left_by_exc = 0
        self.records = []

    def triple(self):
        return (self.rt.guard, self.rt._ignore_errors, self.rt.LinComb.ONE)

    @staticmethod
    def same(a, b):
        return a[0] is b[0] and a[1] is b[1] and a[2] is b[2]

    @staticmethod
    def fmt(t):
        return "(guard=%r, ignore=%r, ONE=%r)" % (t[0], t[1], t[2])

    def check_inside_after_add(self, before, cond):
        rt = self.rt
        cv = getattr(getattr(cond, "lc", cond), "value", cond)
        if isinstance(cond, int):
            return
        ov = before[0].value if before[0] is not None else 1
        if cv not in (0, 1) or ov not in (0, 1):
            self.R.count("inside_invariants_skipped_non_boolean")
            return
        self.R.count("inside_invariants_checked")
        g = rt.guard
        if g is None or g.value != (ov & cv):
            self.problems.append(("nesting-not-conjunction", "effective guard value %r, expected %d = outer %d & cond %d" % (
                None if g is None else g.value, ov & cv, ov, cv)))
        if rt._ignore_errors != (before[1] or cv == 0):
            self.problems.append(("ignore-mode-not-derived-from-guard", "_ignore_errors %r, expected %r" % (rt._ignore_errors, before[1] or cv == 0)))
        if rt.LinComb.ONE is not g:
            self.problems.append(("constant-one-not-guard", "LinComb.ONE is not the active guard inside a region"))

    # probes called from the generated source
    def enter(self, rid, kind, eff, bv=None):
        self.regions[rid] = dict(kind=kind, triple=self.triple(), eff=eff, depth=len(self.shadow),
                                 ctxdepth=len(bv.stack) if bv is not None else None)
        if kind == "block":
            self.open_blocks += 1

    def inside(self, rid, expected):
        rt = self.rt
        if expected < 0:
            return
        self.R.count("inside_invariants_checked")
        g = rt.guard
        gv = 1 if g is None else g.value       # no secret condition around (public conditions only): nothing guards
        if gv != expected:
            self.problems.append(("nesting-not-conjunction", "inside region %d the effective guard value is %r, the conjunction of the enclosing conditions is %d" % (
                rid, None if g is None else g.value, expected)))
        elif rt._ignore_errors != (self.base_ignore or expected == 0):
            self.problems.append(("ignore-mode-not-derived-from-guard", "inside region %d _ignore_errors is %r with effective guard %d" % (rid, rt._ignore_errors, expected)))
        elif rt.LinComb.ONE is not (g if g is not None else rt.LinComb.ONE_SAFE):
            self.problems.append(("constant-one-not-guard", "inside region %d LinComb.ONE is not the guard" % rid))

    # the block API's own calls (loop head, _elif/_else, closing calls): when one of them refuses the program, that exception
    # leaves the innermost open block region through the library's hands - an end event, so the state must be the entry state
    BLOCK_CALLS = ("_if", "_elif", "_else", "_endif", "_while", "_endwhile", "_breakif", "_endfor")

    def watch_block_api(self):
        """sys.monitoring PY_UNWIND (tool id 4) on the code objects of the block API's entry points: no wrapper, so the frames the
        library inspects to tell one loop from another are untouched"""
        if getattr(Monitor, "_watch", None) is not None:
            Monitor._watch["mon"] = self
            return
        br = self.br
        targets = {}
        for name in self.BLOCK_CALLS:
            fn = getattr(br, name, None)
            if fn is not None and hasattr(fn, "__code__"):
                targets[fn.__code__] = name
        it = getattr(br, "ObliviousIterator", None)
        if it is not None and hasattr(it, "__next__"):
            targets[it.__next__.__code__] = "_range.__next__"
        Monitor._watch = dict(mon=self, targets=targets)
        m = sys.monitoring
        try:
            m.use_tool_id(4, "vf-unwind")
        except ValueError:
            pass

        def cb(code, offset, exc):
            name = Monitor._watch["targets"].get(code)
            if name is not None and not isinstance(exc, (Injected, InjectedBase, StopIteration)):
                Monitor._watch["mon"].block_call_raised(name)
        m.register_callback(4, m.events.PY_UNWIND, cb)
        m.set_events(4, m.events.PY_UNWIND)

    def block_call_raised(self, name):
        opened = [(rid, e) for rid, e in self.regions.items() if e["kind"] == "block"]
        if not opened:
            return
        rid, ent = opened[-1]            # dicts keep insertion order: the most recently entered open block
        # (for `_if` that is the region this very call was about to open: its entry triple was recorded just before the call)
        self.R.count("block_calls_refused_by_library")
        if not self.same(ent["triple"], self.triple()):
            self.problems.append(("state-not-restored:block:refused-by-" + name,
                                  "region %d: the library's %s call raised and left %s, at entry: %s" % (rid, name, self.fmt(self.triple()), self.fmt(ent["triple"]))))

    def leave(self, rid, bv=None):
        ent = self.regions.get(rid)
        if ent is None:
            return
        if ent["kind"] == "block" and bv is not None and len(bv.stack) > ent["ctxdepth"]:
            # the closing call never ran (the exception arrived before it): the block is still open, not an end event
            return
        self.regions.pop(rid, None)
        if ent["kind"] == "block":
            self.open_blocks -= 1
        exc = sys.exc_info()[1] is not None
        now = self.triple()
        self.judged += 1
        if exc:
            self.left_by_exc += 1
        self.records.append((ent["kind"], "exception" if exc else "return", ent["eff"]))
        if not self.same(ent["triple"], now):
            self.problems.append(("state-not-restored:%s:%s" % (ent["kind"], "exception" if exc else "return"),
                                  "region %d (%s) ended by %s: %s, at entry: %s" % (rid, ent["kind"], "exception" if exc else "return",
                                                                                   self.fmt(now), self.fmt(ent["triple"]))))


class Failpoint:
    """raise Injected at the k-th LINE event of the generated code objects (sys.monitoring, tool id 3)"""
    TOOL = 3

    def __init__(self):
        self.mon = sys.monitoring
        try:
            self.mon.use_tool_id(self.TOOL, "vf-failpoint")
        except ValueError:
            pass
        self.count = 0
        self.base = False
        self.target = None
        self.fired = None
        self.mon.register_callback(self.TOOL, self.mon.events.LINE, self.cb)
        self.codes = []

    def cb(self, code, line):
        self.count += 1
        if self.target is not None and self.count == self.target:
            self.fired = line
            cls = InjectedBase if self.base else Injected
            raise cls("injected at line event %d (source line %d)" % (self.count, line))

    def arm(self, chunks, target, base=False):
        self.count = 0
        self.base = base
        self.target = target
        self.fired = None
        self.disarm()
        for _, code in chunks:
            self._set(code)

    def _set(self, code):
        self.mon.set_local_events(self.TOOL, code, self.mon.events.LINE)
        self.codes.append(code)
        for c in code.co_consts:
            if hasattr(c, "co_code"):
                self._set(c)

    def disarm(self):
        for c in self.codes:
            self.mon.set_local_events(self.TOOL, c, 0)
        self.codes = []


def worker(job):
    from vf import boot, recorder
    from vf.gen import prog as G
    rt = boot.attach()
    import pysnark.branching as br
    N = boot.Neutral()
    R = common.Run(PROP, "fault_enumeration", RULE)
    M = Monitor(rt, br, R)
    fp = Failpoint()
    for n in range(job["nprogs"]):
        rnd = random.Random("%s/%d" % (job["seed"], n))
        src, inputs = SrcGen(rnd).program()
        bl = rnd.choice([6, 8, 16])
        prog = G.Prog(src, [], bl, 0)
        chunks = G.compile_chunks(src)
        # every fourth program runs with the user's own ignore_errors(True) in effect from the start: regions must hand it back
        M.base_ignore = (n % 2 == 1)
        if M.base_ignore:
            R.count("programs_with_user_ignore_errors")
        # undisturbed run counts the line events
        total = execute(G, N, M, fp, R, prog, chunks, inputs, None, src)
        if total is None:
            continue
        for k in range(1, total + 1):
            execute(G, N, M, fp, R, prog, chunks, inputs, k, src, base=bool((k + n) % 2))
        # the same program under other guard values must emit the same constraint system: the effective guard is the
        # conjunction of the enclosing conditions as a *wire*, not only as a value
        from vf import r1cs
        ref_trace = None
        nfix = 3
        for trial in range(4):
            ins = list(inputs)
            if trial:
                ins[nfix:] = [rnd.randint(0, 1) for _ in ins[nfix:]]
            M.reset()
            out = G.run_api(prog, ins, N, pre=lambda ns: ns.update({"__enter": M.enter, "__leave": M.leave, "__inside": lambda *a: None, "ignore_errors": M.rt.ignore_errors}), chunks=chunks,
                            ignore=M.base_ignore)
            if out.exc is not None:
                continue
            tr = r1cs.canon_trace(out.snap)
            if ref_trace is None:
                ref_trace = (ins, tr)
            else:
                R.count("guard_value_trace_pairs")
                if tr != ref_trace[1]:
                    R.violation("trace-depends-on-guard-values", "the same nested-region program emits different constraint systems for guard values %s and %s (%d vs %d events)" % (
                        ref_trace[0][nfix:], ins[nfix:], len(ref_trace[1]), len(tr)), src=src, inputs=ins, abort_at=None)
        R.count("programs")
        R.count("abort_points_enumerated", total)
    M.base_ignore = False
    # add_guard that itself raises must leave the triple untouched
    for src in ["guarded(PrivVal(2))(lambda: 1)()", "guarded(0)(lambda: 1)()", "guarded('x')(lambda: 1)()", "guarded(2)(lambda: 1)()",
                "_ = BranchingValues()\n_if(PrivVal(3), ctx=_)", "guarded(PrivValBool(1))(lambda: guarded(PrivVal(5))(lambda: 1)())()",
                "guarded(PrivValBool(0))(lambda: guarded(7)(lambda: 1)())()"]:
        prog = G.Prog(src + "\n", [], 8, 0)
        M.reset()
        out = G.run_api(prog, [], N)
        R.case(cell="add_guard_raises", key=(src,), nontrivial=out.exc is not None)
        report(R, M, src, [], None, out)
    fp.disarm()
    return R.export()


def execute(G, N, M, fp, R, prog, chunks, inputs, k, src, base=False):
    M.reset()

    def pre(ns):
        ns["__enter"], ns["__leave"], ns["__inside"] = M.enter, M.leave, M.inside
        ns["ignore_errors"] = M.rt.ignore_errors
        M.watch_block_api()
    fp.arm(chunks, k, base)
    try:
        out = G.run_api(prog, inputs, N, pre=pre, chunks=chunks, ignore=M.base_ignore)
    finally:
        total = fp.count
        fp.disarm()
    injected = isinstance(out.exc, (Injected, InjectedBase))
    if isinstance(out.exc, InjectedBase):
        R.count("injected_base_exception_aborts")
    natural = out.exc is not None and not injected
    if k is not None and not injected:
        R.count("injection_point_not_reached")
        return total
    if injected:
        R.count("injected_aborts")
    if natural:
        R.count("natural_aborts:" + type(out.exc).__name__)
    path = "injected" if injected else ("natural" if natural else "return")
    cells = set("%s|%s|eff%s" % (kind, how if how == "return" else path, eff) for kind, how, eff in M.records)
    R.case(cell=sorted(cells), key=(src, tuple(inputs), k), nontrivial=M.judged > 0)
    R.count("region_ends_judged", M.judged)
    R.count("regions_left_by_exception", M.left_by_exc)
    # final state: neutral again unless an open block region was crossed by the exception (not an end event, DESIGN 6.5)
    guard_after, ign_after, one_safe = out.state_after
    if M.open_blocks == 0:
        R.count("final_state_checked")
        if guard_after is not None or ign_after is not M.base_ignore or not one_safe:
            M.problems.append(("final-state-not-neutral", "after the program (%s): guard=%r ignore=%r ONE is ONE_SAFE=%r" % (path, guard_after, ign_after, one_safe)))
    else:
        R.count("final_state_not_judged_open_block")
    report(R, M, src, inputs, k, out)
    R.sample(dict(src=src, inputs=inputs, abort_at=k, outcome=path, regions_judged=M.judged), cap=4)
    return total


def report(R, M, src, inputs, k, out):
    seen = set()
    for mech, what in M.problems:
        if mech in seen:
            continue
        seen.add(mech)
        R.violation(mech, what, src=src, inputs=inputs, abort_at=k, exc=repr(out.exc)[:200])


def replay(path):
    d = json.load(open(path))
    det = d["detail"]
    from vf import boot
    rt = boot.attach()
    import pysnark.branching as br
    from vf.gen import prog as G
    N = boot.Neutral()
    R = common.Run(PROP, "fault_enumeration", RULE)
    M = Monitor(rt, br, R)
    fp = Failpoint()
    prog = G.Prog(det["src"], [], 8, 0)
    execute(G, N, M, fp, R, prog, G.compile_chunks(det["src"]), det["inputs"], det.get("abort_at"), det["src"])
    print(det["src"])
    print("inputs", det["inputs"], "abort_at", det.get("abort_at"), "problems:", M.problems)
    return 0
