"""C11: zkinterface files encode the traced circuit; the verifier file has no witness (DESIGN.md 4/C11).

One fresh interpreter per field configuration (zkinterface / zkifbellman / zkifbulletproofs); the `flatbuffers`
package is absent, a Builder stand-in is on the path (vf/shims/flatbuffers).  Files are decoded by an independent
reader of the FlatBuffers wire format and compared with the in-memory trace snapshotted just before prove()."""
import json
import math
import os
import random
import shutil
import subprocess
import tempfile

from vf import common, shard, boot

PROP = "C11"
FIRST_OUTPUT_NAME = "circuit.zkif"     # taken by a directory in the "first-prove-fails" script variant
FIELDS = {
    "zkinterface": 21888242871839275222246405745257275088548364400416034343698204186575808495617,
    "zkifbellman": 52435875175126190479447740508185965837690552500527637822603658699938581184513,
    "zkifbulletproofs": 7237005577332262213973186563042994240857116359379907606001950938285454250989,
}
RULE = ("one program = one traced computation on one of the three zkinterface field configurations (generated programs over the "
        "full grammar + hostile straight-line programs: negative, >= p, > 256-bit values, zero coefficients, empty LCs, no public "
        "values, no constraints) whose computation.zkif and circuit.zkif are decoded and compared with the in-memory trace; plus "
        "pairs of runs with equal public and different private inputs whose circuit.zkif must be byte-identical; non-trivial = "
        "files written and all comparisons ran; distinct by (backend, source, inputs); cell = backend x program class x value classes")

PAIR_PROGRAMS = [
    ("a = PrivVal(I[0])\nb = PrivVal(I[1])\npub = PubVal(I[2])\n(a * b).assert_eq(pub)\n", [[3, 4, 12], [2, 6, 12], [-3, -4, 12], [1, 12, 12]]),
    ("a = PrivVal(I[0])\nb = PrivVal(I[1])\npub = PubVal(I[2])\n(a + b).assert_eq(pub)\nz = (a - b).check_zero()\n", [[5, 5, 10], [3, 7, 10], [-1, 11, 10]]),
    ("pub = PubVal(I[1])\na = PrivVal(I[0])\n(a * a).assert_eq(pub)\nq = PubVal(I[2])\n(a * a * a * a).assert_eq(q)\n", [[3, 9, 81], [-3, 9, 81]]),
    ("a = PrivVal(I[0])\nb = PrivVal(I[1])\nc = a < b\nd = if_then_else(c, a, b)\npub = PubVal(I[2])\n(d * 0 + pub).assert_eq(pub)\n", [[1, 2, 5], [9, 4, 5], [0, 0, 5]]),
    ("a = PrivVal(I[0])\nb = PrivVal(I[1])\ns = (a * a + b * b)\no = s.val()\n", [[3, 4], [4, 3], [5, 0], [0, -5]]),
]


def main():
    tier = common.tier()
    n = 120 if tier == "quick" else 800
    jobs = []
    for be in FIELDS:
        for s in range(4 if tier == "quick" else 10):
            nsh = 4 if tier == "quick" else 10
            jobs.append(dict(seed="%d/%s/%s/%d" % (common.seed(), PROP, be, s), backend=be, n=n, scripts=1 if tier == "quick" else 3,
                             sizes=[[npub, (npub * 7 + 3) % 5, (npub * 3) % 3] for npub in range(s, 131, nsh)]))
    R = common.Run(PROP, "translation_validation", RULE)
    boot.spread_pyflags(jobs)
    for job, res, err in shard.run_jobs("vf.checks.C11", "worker", jobs, timeout=3600, nproc=16, shims=("flatbuffers",)):
        if err:
            R.inconc("worker %s: %s" % (job["seed"], err))
            continue
        R.merge(res)
    R.extra["programs"] = R.counters.get("programs_validated", 0)
    R.extra["disagreements_checked"] = R.counters.get("comparisons", 0)
    R.assumptions = ["the FlatBuffers Builder stand-in (vf/shims/flatbuffers) lays bytes out as the format specifies; it is cross-checked "
                     "against the independent reader on a hand-built message at the start of every worker",
                     "the optional 'zkif' file identifier is not demanded"]
    req = ["programs_validated", "comparisons", "byte_identical_pairs", "hostile_values_seen", "scripts_validated", "validated_after_field_switch"]
    req += ["programs_validated:" + be for be in FIELDS]
    return R.finish(require_counters=req)


def validate(R, snap, cwd, det, backend):
    from vf.decode import zkif
    from vf import r1cs as ev
    p = snap["p"]
    BL = math.ceil(p.bit_length() / 8)
    npub, npriv = len(snap["pubvals"]), len(snap["privvals"])
    problems = []
    ncomp = 0
    files = {}
    for fn in ("computation.zkif", "circuit.zkif"):
        try:
            files[fn] = open(os.path.join(cwd, fn), "rb").read()
        except OSError as e:
            R.violation("files-missing", "prove() did not write %s: %s" % (fn, e), **det)
            return
    assign = None
    for fn, want_types in (("computation.zkif", [zkif.MSG_HEADER, zkif.MSG_WITNESS, zkif.MSG_CONSTRAINTS]), ("circuit.zkif", [zkif.MSG_HEADER, zkif.MSG_CONSTRAINTS])):
        ms, probs = zkif.messages(files[fn])
        for pr in probs:
            problems.append(("zkif-malformed", "%s: %s" % (fn, pr)))
        types = [m["type"] for m in ms]
        if fn == "circuit.zkif" and zkif.MSG_WITNESS in types:
            problems.append(("witness-in-circuit-file", "circuit.zkif contains a Witness message"))
        if types != want_types:
            problems.append(("message-sequence", "%s holds messages %s, expected %s" % (fn, types, want_types)))
            continue
        hdr = ms[0]
        ncomp += 4 + npub
        inst = hdr["instance"]
        if inst["ids"] != list(range(1, npub + 1)):
            problems.append(("instance-ids", "%s: instance variable ids %s, expected 1..%d" % (fn, inst["ids"][:6], npub)))
        if inst["values"] != [v % p for v in snap["pubvals"]]:
            problems.append(("instance-values", "%s: instance values differ from the public values mod p" % fn))
        if npub and inst["width"] != BL:
            problems.append(("element-width", "%s: instance elements are %d bytes, field needs %d" % (fn, inst["width"], BL)))
        if hdr["free_variable_id"] != npub + npriv + 1:
            problems.append(("free-variable-id", "%s: free_variable_id %d, expected %d" % (fn, hdr["free_variable_id"], npub + npriv + 1)))
        if hdr["field_maximum"] != p - 1 or hdr["field_maximum_len"] != BL:
            problems.append(("field-maximum", "%s: field_maximum %r (%d bytes), expected p-1 in %d bytes" % (fn, hdr["field_maximum"], hdr["field_maximum_len"], BL)))
        cmsg = ms[-1]
        if len(cmsg["constraints"]) != len(snap["constraints"]):
            problems.append(("constraint-count", "%s: %d constraints, trace has %d" % (fn, len(cmsg["constraints"]), len(snap["constraints"]))))
        for k, (dc, mc) in enumerate(zip(cmsg["constraints"], snap["constraints"])):
            bad = False
            for part in range(3):
                ncomp += 1
                want = sorted(((kk if kk >= 0 else npub - kk), vv % p) for kk, vv in mc[part].items())
                got = sorted(zip(dc[part]["ids"], dc[part]["values"]))
                if got != want:
                    problems.append(("constraint-differs", "%s: constraint %d part %s decodes to %s, trace %s" % (fn, k, "ABC"[part], got[:3], want[:3])))
                    bad = True
                    break
                if dc[part]["ids"] and dc[part]["width"] != BL:
                    problems.append(("element-width", "%s: coefficient elements are %d bytes, field needs %d" % (fn, dc[part]["width"], BL)))
                    bad = True
                    break
                if any(v >= p for v in dc[part]["values"]):
                    problems.append(("non-canonical", "%s: coefficient >= p" % fn))
                    bad = True
                    break
            if bad:
                break
        R.count("decoded_constraints", len(cmsg["constraints"]))
        if fn == "computation.zkif":
            w = ms[1]["assigned"]
            ncomp += npriv
            if w["ids"] != list(range(npub + 1, npub + npriv + 1)):
                problems.append(("witness-ids", "witness ids %s.., expected %d..%d" % (w["ids"][:4], npub + 1, npub + npriv)))
            if w["values"] != [v % p for v in snap["privvals"]]:
                problems.append(("witness-values", "witness values differ from the private values mod p"))
            if npriv and w["width"] != BL:
                problems.append(("element-width", "witness elements are %d bytes, field needs %d" % (w["width"], BL)))
            if any(v >= p for v in w["values"] + inst["values"]):
                problems.append(("non-canonical", "assignment element >= p"))
            assign = {0: 1}
            assign.update(zip(inst["ids"], inst["values"]))
            assign.update(zip(w["ids"], w["values"]))
            cons = [tuple(dict(zip(part["ids"], part["values"])) for part in dc) for dc in cmsg["constraints"]]
            try:
                bad = ev.unsatisfied(cons, assign, p)
            except KeyError as e:
                bad = ["unassigned variable %s" % e]
            ncomp += len(cons)
            if bad:
                problems.append(("decoded-assignment-unsatisfying", "decoded assignment violates decoded constraint %s" % (bad[0],)))
    R.count("comparisons", ncomp)
    seen = set()
    for mech, what in problems:
        if mech not in seen:
            seen.add(mech)
            R.violation(mech, what, backend=backend, **det)
    return files["circuit.zkif"]


def prove_in(rt, wd, home):
    import contextlib
    import io
    os.chdir(wd)
    try:
        with contextlib.redirect_stdout(io.StringIO()), contextlib.redirect_stderr(io.StringIO()):
            rt.backend.prove()
    finally:
        os.chdir(home)


def worker(job):
    from vf import realrun
    from vf.gen import prog as G
    from vf.decode import zkif
    be = job["backend"]
    rt = realrun.attach_real(be)
    realrun.install_boundary(rt)
    R = common.Run(PROP, "translation_validation", RULE)
    import sys as _sys
    if _sys.flags.optimize:
        R.count("workers_under_python_O%s" % ("O" if _sys.flags.optimize > 1 else ""))
    import flatbuffers
    R.count("flatbuffers_standin" if getattr(flatbuffers, "__vf_standin__", False) else "flatbuffers_real")
    st = zkif.selftest()
    if st:
        R.inconc("builder/reader self-test failed: %r" % (st,))
        return R.export()
    p = rt.backend.get_modulus()
    if p != FIELDS[be]:
        R.violation("wrong-field", "backend %s works in a field of order %d" % (be, p))
    rnd = random.Random(job["seed"])
    home = os.getcwd()
    reuse = tempfile.mkdtemp(prefix="c11same-", dir=home)
    sweep = job.get("sizes") or []
    for n in range(job["n"] + len(sweep)):
        hostile = rnd.random() < 0.5
        if n >= job["n"]:
            npub, npriv, ncons = sweep[n - job["n"]]
            src, inputs = realrun.sized_program(npub, npriv, ncons)
            out = realrun.run_src(rt, src, inputs, 16, 8)
            if out.exc is not None:
                R.violation("sized-program-raised", "a program with %d public and %d private values raised %r" % (npub, npriv, out.exc), src=src)
                continue
            snap = realrun.boundary_snapshot(rt)
            wd = tempfile.mkdtemp(prefix="cszs-", dir=home)
            try:
                prove_in(rt, wd, home)
                validate(R, snap, wd, dict(src=src, inputs=inputs, public_values=npub, private_values=npriv, constraints=len(snap["constraints"])), be)
            finally:
                shutil.rmtree(wd, ignore_errors=True)
            R.count("sizes_swept")
            R.case(cell="%s|size-sweep|pub%d" % (be, min(npub // 32, 4)), key=(be, "size", npub, npriv, ncons))
            continue
        if n == 1:
            src, inputs = "x = PrivVal(I[0])\ny = PubVal(I[1])\nfor k in range(%d):\n    y = y * x + k\nz = y.val()\n" % rnd.randint(4200, 9000), [3, -2]
            bl, res, klass = 16, 8, "large"
        elif hostile:
            src, inputs = realrun.hostile_program(rnd, p)
            bl, res, klass = 16, 8, "hostile"
        else:
            g = G.Gen(rnd, features=rnd.choice([("int", "bool", "assert_", "guard"), ("int", "bool", "fxp", "assert_", "array")]))
            pr = g.program(nstmts=rnd.randint(2, 8))
            src, inputs, bl, res, klass = pr.src, pr.primary(), pr.bl, pr.res, "grammar"
        out = realrun.run_src(rt, src, inputs, bl, res)
        if out.exc is not None:
            R.count("program_raised")
            R.case(nontrivial=False)
            continue
        snap = realrun.boundary_snapshot(rt)
        if realrun.snapshot(rt) != snap:
            R.violation("backend-trace-differs-from-boundary", "the backend's in-memory trace is not what the runtime handed to it (constraints %d vs %d)" % (
                len(realrun.snapshot(rt)["constraints"]), len(snap["constraints"])), src=src[:400], inputs=inputs)
        vals = snap["pubvals"] + snap["privvals"]
        classes = set()
        if any(v < 0 for v in vals):
            classes.add("neg")
        if any(v >= p for v in vals):
            classes.add(">=p")
        if any(abs(v) >= 1 << 256 for v in vals):
            classes.add(">256bit")
        if any(c == 0 for con in snap["constraints"] for part in con for c in part.values()):
            classes.add("zero-coef")
        if any(len(part) == 0 for con in snap["constraints"] for part in con):
            classes.add("empty-lc")
        if not snap["pubvals"]:
            classes.add("no-pub")
        if not snap["constraints"]:
            classes.add("no-constraints")
        if classes & {"neg", ">=p", ">256bit"}:
            R.count("hostile_values_seen")
        same_dir = n % 3 == 0
        wd = reuse if same_dir else tempfile.mkdtemp(prefix="c11-", dir=home)
        try:
            prove_in(rt, wd, home)
            validate(R, snap, wd, dict(src=src[:400], inputs=inputs, bl=bl, res=res, classes=sorted(classes), directory_reused=same_dir), be)
            if same_dir:
                R.count("runs_in_a_reused_directory")
        finally:
            if not same_dir:
                shutil.rmtree(wd, ignore_errors=True)
        R.count("programs_validated")
        R.count("programs_validated:" + be)
        R.case(cell="%s|%s|%s" % (be, klass, "+".join(sorted(classes)) or "plain"), key=(be, src, tuple(inputs)))
        R.sample(dict(backend=be, src=src[:400], inputs=inputs, classes=sorted(classes), constraints=len(snap["constraints"])), cap=3)
    shutil.rmtree(reuse, ignore_errors=True)
    # state that survives: prove twice with more tracing in between; then switch the field in this interpreter
    # (what importing a derived backend after the base one amounts to) and write again
    if hasattr(rt.backend, "set_modulus"):
        from pysnark.runtime import PrivVal, PubVal
        for q in [p] + [v for v in FIELDS.values() if v != p] + [p]:
            rt.backend.set_modulus(q)
            src, inputs = realrun.hostile_program(rnd, q)
            out = realrun.run_src(rt, src, inputs, 16, 8)
            if out.exc is not None:
                continue
            for rep in range(2):
                if rep:
                    (PubVal(-5) * PrivVal(-7) - PrivVal(3)).val()
                snap = realrun.boundary_snapshot(rt)
                wd = tempfile.mkdtemp(prefix="c11f-", dir=home)
                try:
                    prove_in(rt, wd, home)
                    validate(R, snap, wd, dict(src=src, inputs=inputs, after_field_switch_to=q, second_prove=bool(rep)), be)
                    R.count("validated_after_field_switch")
                    R.case(cell="%s|field-switch" % be, key=(be, "switch", q, rep, src))
                finally:
                    shutil.rmtree(wd, ignore_errors=True)
        rt.backend.set_modulus(p)
    # byte identity of the verifier file for equal public / different private inputs
    for src, vectors in PAIR_PROGRAMS:
        blobs = []
        for inputs in vectors:
            out = realrun.run_src(rt, src, inputs, 16, 8)
            if out.exc is not None:
                R.count("pair_program_raised")
                continue
            snap = realrun.boundary_snapshot(rt)
            wd = tempfile.mkdtemp(prefix="c11p-", dir=home)
            try:
                prove_in(rt, wd, home)
                blob = validate(R, snap, wd, dict(src=src, inputs=inputs), be)
                comp = open(os.path.join(wd, "computation.zkif"), "rb").read()
            finally:
                shutil.rmtree(wd, ignore_errors=True)
            blobs.append((inputs, blob, snap["pubvals"], comp))
        for (i1, b1, pv1, c1), (i2, b2, pv2, c2) in zip(blobs, blobs[1:]):
            if pv1 != pv2:
                R.count("pair_public_values_differ")
                continue
            R.case(cell="%s|byte-identity" % be, key=(be, src, tuple(i1), tuple(i2)))
            if b1 != b2:
                R.violation("circuit-file-depends-on-private-values", "circuit.zkif differs between private inputs %s and %s with equal public values" % (i1, i2),
                            backend=be, src=src)
            else:
                R.count("byte_identical_pairs")
            if c1 == c2 and i1 != i2:
                R.count("computation_files_equal_for_different_witness")
    # byte identity again, each run in its own interpreter through the at-exit path
    src, vectors = rnd.choice(PAIR_PROGRAMS)
    blobs = []
    for inputs in vectors[:3]:
        wd = tempfile.mkdtemp(prefix="c11q-", dir=home)
        try:
            script = "from pysnark.runtime import *\nfrom pysnark.boolean import *\nfrom pysnark.branching import if_then_else\nI = %r\n%s\n" % (inputs, src)
            open(os.path.join(wd, "prog.py"), "w").write(script)
            pr = subprocess.run([boot.PY] + boot.pyflags() + ["prog.py"], cwd=wd, env=boot.child_env({"PYSNARK_BACKEND": be}, shims=("flatbuffers",)),
                                stdout=subprocess.PIPE, stderr=subprocess.PIPE, timeout=120)
            if pr.returncode == 0 and os.path.exists(os.path.join(wd, "circuit.zkif")):
                blobs.append((inputs, open(os.path.join(wd, "circuit.zkif"), "rb").read(), open(os.path.join(wd, "computation.zkif"), "rb").read()))
        finally:
            shutil.rmtree(wd, ignore_errors=True)
    for (i1, b1, c1), (i2, b2, c2) in zip(blobs, blobs[1:]):
        R.case(cell="%s|byte-identity|separate-interpreters" % be, key=(be, "pair-script", src, tuple(i1), tuple(i2)))
        if b1 != b2:
            R.violation("circuit-file-depends-on-private-values", "circuit.zkif of two interpreters differs between private inputs %s and %s" % (i1, i2), backend=be, src=src)
        else:
            R.count("byte_identical_pairs")
        if c1 == c2:
            R.count("computation_files_equal_for_different_witness")
    # a slice through the at-exit path as real scripts
    for k in range(job["scripts"]):
        src, inputs = realrun.hostile_program(rnd, p)
        wd = wd_top = tempfile.mkdtemp(prefix="c11s-", dir=home)
        try:
            # variants of the same script: it changes directory after importing the library (files belong where the script
            # is when it ends); its first explicit prove() fails because an output name is taken by a directory, the script
            # removes the obstacle and the run ends normally.  (A standard error that refuses writes is NOT a variant: the
            # writers report progress there, a failing report aborts them - an environment fault the property does not cover.)
            variant = ["plain", "chdir", "first-prove-fails"][(int(job["seed"].rsplit("/", 1)[1]) + k + len(job["seed"])) % 3]
            extra = {"plain": "", "chdir": "import os\nos.makedirs('sub')\nos.chdir('sub')\n",
                     "first-prove-fails": ("import os, shutil\nos.makedirs(FIRSTOUT)\ntry:\n    _rt0 = __import__('pysnark.runtime').runtime\n    _rt0.backend.prove()\n"
                                           "except Exception:\n    pass\nshutil.rmtree(FIRSTOUT)\n")}[variant]
            script = ("import json, sys\nsys.set_int_max_str_digits(0)\nfrom pysnark.runtime import *\nfrom pysnark.boolean import *\nI = %r\n%s\n"
                      "import pysnark.runtime as _rt\n_b = _rt.backend\n" + extra.replace("FIRSTOUT", repr(FIRST_OUTPUT_NAME)) +
                      "json.dump(dict(p=_b.get_modulus(), pubvals=[int(v) for v in _b.pubvals], privvals=[int(v) for v in _b.privvals],\n"
                      "    constraints=[[sorted(x.lc.items()) for x in c] for c in _b.constraints]), open('trace.json', 'w'))\n") % (inputs, src)
            open(os.path.join(wd, "prog.py"), "w").write(script)
            errdev = open("/dev/full", "w") if (variant == "stderr-full" and os.path.exists("/dev/full")) else subprocess.PIPE
            try:
                pr = subprocess.run([boot.PY] + boot.pyflags() + ["prog.py"], cwd=wd, env=boot.child_env({"PYSNARK_BACKEND": be}, shims=("flatbuffers",)),
                                    stdout=subprocess.PIPE, stderr=errdev, timeout=120)
            finally:
                if errdev is not subprocess.PIPE:
                    errdev.close()
            R.count("script_variant:" + variant)
            root = os.path.join(wd, "sub") if variant == "chdir" else wd
            if (pr.returncode != 0 and variant != "stderr-full") or not os.path.exists(os.path.join(root, "trace.json")):
                R.count("script_raised")
                continue
            if variant == "chdir":
                stray = [fn for fn in os.listdir(wd) if fn.endswith((".r1cs", ".wtns", ".zkif"))]
                if stray:
                    R.violation("files-in-import-time-directory", "the script changed directory after importing the library; %s appeared in the directory of the import" % stray, src=src, inputs=inputs)
                wd = root
            import sys
            sys.set_int_max_str_digits(0)
            tr = json.load(open(os.path.join(wd, "trace.json")))
            snap = dict(p=tr["p"], pubvals=tr["pubvals"], privvals=tr["privvals"],
                        constraints=[tuple({int(kk): v for kk, v in part} for part in c) for c in tr["constraints"]])
            validate(R, snap, wd, dict(src=src, inputs=inputs, script=True), be)
            R.count("scripts_validated")
            R.case(cell="%s|script|at-exit" % be, key=("script", be, src, tuple(inputs)))
        finally:
            shutil.rmtree(wd_top, ignore_errors=True)
    return R.export()


def replay(path):
    d = json.load(open(path))
    print(json.dumps(d, indent=1)[:3000])
    return 0
