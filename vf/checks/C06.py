"""C06: the constraint system does not depend on the values processed (DESIGN.md 4/C06)."""
from vf.checks import progbase


def main():
    R, code = progbase.run("C06", quick=(16, 200), thorough=(32, 2500), extra={"nvalid": 3},
                           require=("trace_events_compared",))
    return code


def replay(path):
    return progbase.replay("C06", path)
