"""C02 soundness: the constraints of every value-returning operation determine its result uniquely from the
operands (DESIGN.md 4/C02).  Execution supplies the constraint system; vf.solve searches its witness space."""
import json
import random

from vf import common, shard

PROP = "C02"
RULE = ("one case = one value-returning operation (or two-level composition) executed honestly on concrete operands at "
        "bitlength 1..5(6); the recorded constraints are searched over ALL assignments of the variables the operation "
        "introduced; non-trivial = the honest run completed, the op emitted >=1 constraint or allocated >=1 variable and "
        "the search was conclusive; distinct by (template, expression, operands, bitlength, resolution, field); "
        "cell = template x bitlength")

DIV_FAMILY = {
    # tid -> lambda(ins, consts, res) -> (N, D, role, mult)   role q: result = quotient*mult ; r: result = remainder*mult
    "floordiv_ss": lambda i, c, r: (i[0], i[1], "q", 1),
    "floordiv_sc": lambda i, c, r: (i[0], c[0], "q", 1),
    "floordiv_cs": lambda i, c, r: (c[0], i[0], "q", 1),
    "floordiv_sN": lambda i, c, r: (i[0], c[0], "q", 1),
    "mod_sN": lambda i, c, r: (i[0], c[0], "r", 1),
    "mod_ss": lambda i, c, r: (i[0], i[1], "r", 1),
    "mod_sc": lambda i, c, r: (i[0], c[0], "r", 1),
    "mod_cs": lambda i, c, r: (c[0], i[0], "r", 1),
    "rdivmod_q": lambda i, c, r: (c[0], i[0], "q", 1), "rdivmod_r": lambda i, c, r: (c[0], i[0], "r", 1),
    "divmod_q": lambda i, c, r: (i[0], i[1], "q", 1), "divmod_r": lambda i, c, r: (i[0], c[0], "r", 1),
    "rshift_ss": lambda i, c, r: (i[0], 1 << i[1] if 0 <= i[1] < 64 else 0, "q", 1),
    "rshift_cs": lambda i, c, r: (c[0], 1 << i[0] if 0 <= i[0] < 64 else 0, "q", 1),
    "fmul_ff": lambda i, c, r: (rep(i[0], r) * rep(i[1], r), 1 << r, "q", 1),
    "fmul_fc": lambda i, c, r: (rep(i[0], r) * rep(c[0], r), 1 << r, "q", 1),
    "fmul_cf": lambda i, c, r: (rep(i[0], r) * rep(c[0], r), 1 << r, "q", 1),
    "fdiv_ff": lambda i, c, r: (rep(i[0], r) << r, rep(i[1], r), "q", 1),
    "fdiv_fi": lambda i, c, r: (rep(i[0], r) << r, i[1] << r, "q", 1),
    "fdiv_fk": lambda i, c, r: (rep(i[0], r), c[0], "q", 1),
    "fdiv_fc": lambda i, c, r: (rep(i[0], r) << r, rep(c[0], r), "q", 1),
    "fdiv_cf": lambda i, c, r: (rep(c[0], r) << r, rep(i[0], r), "q", 1),
    "fdiv_Kf": lambda i, c, r: ((c[0] << r) << r, rep(i[0], r), "q", 1),
    "ffloordiv_ff": lambda i, c, r: (rep(i[0], r), rep(i[1], r), "q", 1 << r),
    "ffloordiv_fk": lambda i, c, r: (rep(i[0], r), c[0] << r, "q", 1 << r),
    "ffloordiv_cf": lambda i, c, r: (rep(c[0], r), rep(i[0], r), "q", 1 << r),
    "fmod_ff": lambda i, c, r: (rep(i[0], r), rep(i[1], r), "r", 1),
    "fmod_fk": lambda i, c, r: (rep(i[0], r), c[0] << r, "r", 1),
    "fmod_cf": lambda i, c, r: (rep(c[0], r), rep(i[0], r), "r", 1),
}
BITWISE_CONST = {"and_sc", "and_cs", "or_sc", "or_cs", "xor_sc", "xor_cs"}
SKIP = {"divmod_ss", "fpow", "bits_w"}


def rep(x, res):
    if isinstance(x, str):
        x = float(x)
    return int(round(x * (1 << res)))


def plan(tier, rnd):
    from vf.gen import prog as G
    items = []
    for tid, rty, tmpl in G.INT_T + G.BOOL_T + G.FXP_T:
        if rty is None or tid in SKIP:
            continue
        heavy = tid in DIV_FAMILY or tid in ("pow_ss", "pow_cs", "lshift_ss", "lshift_cs")
        if tier == "quick":
            bls = [2, 3, 4] if heavy else [2, 3, 4, 5]
            for bl in bls:
                items.append(dict(tid=tid, bl=bl, n=8 if heavy else 14, exhaustive=False))
        else:
            for bl in ([1, 2, 3] if heavy else [1, 2, 3]):
                items.append(dict(tid=tid, bl=bl, n=2500 if not heavy else 1200, exhaustive=True))
            for bl in ([4, 5, 6] if heavy else [4, 5, 6, 7]):
                items.append(dict(tid=tid, bl=bl, n=150 if not heavy else {4: 60, 5: 20, 6: 4}[bl], exhaustive=False))
    for kind in ("array_read", "array_write", "array_2d", "compose", "select_lazy", "reuse_after_guard", "under_true_guard", "three_level", "ignore_mode", "bool_typed_fresh", "region_list_growth", "region_local_variable"):
        for bl in (2, 3, 4):
            items.append(dict(tid=kind, bl=bl, n=(25 if tier == "quick" else 500), exhaustive=False))
    rnd.shuffle(items)
    return items


def main():
    tier = common.tier()
    rnd = common.rng(PROP, "plan")
    items = plan(tier, rnd)
    nshards = 16 if tier == "quick" else 16
    nshards = nshards * (1 if tier == "quick" else 4)
    jobs = [dict(seed="%d/%s/%d" % (common.seed(), PROP, s), items=items[s::nshards]) for s in range(nshards)]
    R = common.Run(PROP, "exploration", RULE)
    for job, res, err in shard.run_jobs("vf.checks.C02", "worker", jobs, timeout=3600, nproc=16):
        if err:
            R.inconc("worker %s: %s" % (job["seed"], err))
            continue
        R.merge(res)
    # comparisons with operand classes the library was not written for (floats, Fraction, Decimal, True / False): where the operator
    # accepts one, the outcome it hands back - possibly a plain constant with no constraint at all - must be the honest one
    fam = [dict(seed="%d/C02/foreign/%d" % (common.seed(), s), props=["C05"], n=3000, only_ops=["==", "!=", "<", "<=", ">", ">="]) for s in range(4 if tier == "quick" else 16)]
    for job, res, err in shard.run_jobs("vf.progwork", "foreign_operands", fam, timeout=1800):
        if err:
            R.inconc("foreign-operand comparisons: %s" % err[-300:])
            continue
        part = res["C05"]
        for v in part["violations"]:
            v["mech"] = v["mech"].replace("value-differs:foreign-operand", "comparison-outcome-differs:foreign-operand")
        part["counters"] = {("foreign_comparison_" + k if k == "values_compared" else k): n for k, n in part["counters"].items()}
        R.merge(part)
    R.assumptions = ["solver completeness is validated by its self-test (synthetic systems + brute force on small primes) at the start of every worker",
                     "every reported extra/free solution is certified by concrete re-evaluation with vf.r1cs",
                     "bitlength <= 5 (6 thorough): the gadgets are the same code for every width"]
    concl = R.counters.get("conclusive", 0)
    inc = R.counters.get("solver_inconclusive", 0)
    if concl == 0:
        R.inconc("no conclusive solver verdict")
    elif inc > 0.02 * (concl + inc):
        R.inconc("%d of %d solver calls inconclusive (> 2%%)" % (inc, concl + inc))
    return R.finish(require_counters=("conclusive", "selftest_ok"))


def special_case(kind, bl, rnd):
    """hand-shaped operations that are not single templates: arrays, compositions, lazy selection"""
    from vf.opcases import Case, int_classes
    from vf.gen import prog as G
    h = (1 << (bl - 1)) - 1
    if kind in ("array_read", "array_write", "array_2d"):
        L = rnd.randint(1, 5)
        c = Case(kind, "", bl, 0, [], [], "i")
        if kind == "array_2d":
            L2 = rnd.randint(1, 3)
            L = rnd.randint(1, 3)
            vals = [rnd.randint(-h, h) for _ in range(L * L2)]
            i, j = rnd.randint(0, L - 1), rnd.randint(0, L2 - 1)
            c.inputs = vals + [i, j]
            n = len(vals)
            c.pre_src = "\n".join("x%d = PrivVal(I[%d])" % (k, k) for k in range(n + 2)) + "\n"
            rows = ", ".join("Array([%s])" % ", ".join("x%d" % (a * L2 + b) for b in range(L2)) for a in range(L))
            c.pre_src += "A = Array([%s])\n" % rows
            if rnd.random() < 0.5:
                c.op_src = "r = A[x%d, x%d] + 0" % (n, n + 1)
            else:
                c.op_src = "A[x%d, x%d] = x0 + 1\nr = A[%d][%d] + A[0][0]" % (n, n + 1, i, j)
            c.expr = c.op_src
            return c
        vals = [rnd.randint(-h, h) for _ in range(L)]
        idx = rnd.randint(0, L - 1)
        secret = [rnd.random() < 0.7 for _ in range(L)]
        c.inputs = vals + [idx, rnd.randint(-h, h)]
        c.pre_src = "\n".join("x%d = PrivVal(I[%d])" % (k, k) for k in range(L + 2)) + "\n"
        c.pre_src += "A = Array([%s])\n" % ", ".join(("x%d" % k) if secret[k] else str(vals[k]) for k in range(L))
        if kind == "array_read":
            c.op_src = "r = A[x%d] + 0" % L
        else:
            k2 = rnd.randint(0, L - 1)
            c.op_src = "A[x%d] = x%d\nr = A[%d] + 0\nr2 = A[%d] + 0" % (L, L + 1, idx, k2)
            c.results = ["r", "r2"]
        c.expr = c.op_src
        return c
    if kind == "compose":
        inner_pool = [t for t in G.INT_T + G.BOOL_T if t[1] in ("i", "b") and t[0] not in DIV_FAMILY and t[0] not in SKIP
                      and t[0] not in BITWISE_CONST and t[0] not in ("pow_ss", "pow_cs", "lshift_ss", "lshift_cs", "rshift_sc")]
        # division-family / bitwise-with-constant outer ops are left out: their own known non-uniqueness (F-A, F-B)
        # would mask whatever the composition adds
        outer_pool = [t for t in G.INT_T + G.BOOL_T if t[1] in ("i", "b") and t[0] not in SKIP and t[0] not in DIV_FAMILY
                      and t[0] not in BITWISE_CONST]
        for _ in range(50):
            it = rnd.choice(inner_pool)
            ot = rnd.choice(outer_pool)
            slot = "{" + it[1] + "}"
            if slot not in ot[2]:
                continue
            # replace one matching slot of the outer template by the inner expression
            parts = ot[2].split(slot)
            k = rnd.randrange(len(parts) - 1)
            tmpl = slot.join(parts[:k + 1]) + "(" + it[2] + ")" + slot.join(parts[k + 1:])
            from vf.opcases import sample_case
            c = sample_case("compose:%s(%s)" % (ot[0], it[0]), tmpl, ot[1], bl, 0, rnd)
            c.outer = ot[0]
            return c
        return None
    if kind == "reuse_after_guard":
        # the same operation on the same objects twice: first inside a region whose guard may be false, then unguarded.
        # Anything memoised on the operand objects during the first, slack-absorbed run must not weaken the second.
        c = Case(kind, "", bl, 0, [], [], "i")
        a, b, g = rnd.randint(0, h), rnd.randint(0, max(1, min(h, bl - 1))), rnd.choice([0, 0, 1])
        c.inputs = [a, b, g]
        c.pre_src = "x0 = PrivVal(I[0])\nx1 = PrivVal(I[1])\nc0 = PrivValBool(I[2])\n"
        op = rnd.choice(["x0 >> 1", "x0 & x1", "~x0", "x0.to_bits()[1] + 0", "(x0 < x1) + 0", "abs(x0 - x1)", "x0 | x1", "x0 ^ x1",
                         "LinComb.from_bits(x0.to_bits())", "(x0 == x1) + 0", "x0.check_positive() + 0"])
        c.op_src = "@guarded(c0)\ndef _b():\n    return %s\n_b()\nr = %s" % (op, op)
        c.expr = c.op_src
        return c
    if kind == "region_list_growth":
        # a tracked list that grows inside a region: the library refuses it when the region closes (then there is nothing to judge);
        # if it ever lets the program through, whatever ends up in the list must be pinned down like any other result
        c = Case(kind, "", bl, 0, [], [], "i")
        a, b, g = rnd.randint(0, h), rnd.randint(1, max(1, h)), rnd.choice([0, 0, 1])
        c.inputs = [a, b, g]
        c.pre_src = "x0 = PrivVal(I[0])\nx1 = PrivVal(I[1])\nc0 = PrivValBool(I[2])\n"
        elem = rnd.choice(["x0 / x1", "(x0 < x1) + 0", "x0 * x1", "LinComb.from_bits(x0.to_bits())", "x0 // x1"])
        how = rnd.choice(["if", "for"])
        if how == "if":
            body = "if _if(c0, ctx=_):\n    _.out = _.out + [%s]\n_endif(ctx=_)\n" % elem
        else:
            body = "for _i in _range(c0 + 0, max=2, ctx=_):\n    _.out = _.out + [%s]\n_endfor(ctx=_)\n" % elem
        c.op_src = "_ = BranchingValues()\n_.out = [x0 + 0]\n" + body + "r = _.out[-1] + 0"
        c.expr = c.op_src
        return c
    if kind == "region_local_variable":
        # a variable first assigned inside a loop body / one branch and read after the region: the library refuses it when the region
        # closes (nothing to judge then); if it ever lets the program through - also for a loop that makes no round, a branch that is
        # not taken - the value read afterwards must be pinned down like any other result
        c = Case(kind, "", bl, 0, [], [], "i")
        a, b, g = rnd.randint(0, h), rnd.randint(1, max(1, h)), rnd.choice([0, 0, 1, 2])
        c.inputs = [a, b, g]
        c.pre_src = "x0 = PrivVal(I[0])\nx1 = PrivVal(I[1])\nn0 = PrivVal(I[2])\n"
        elem = rnd.choice(["x0 * x1", "x0 / x1", "(x0 < x1) + 0", "x0 // x1", "x0 * x0 + x1"])
        how = rnd.choice(["for", "for", "while", "if", "if_else"])
        if how == "for":
            body = "for _i in _range(n0, max=2, ctx=_):\n    _.t = %s\n    _.s = _.s + _.t\n_endfor(ctx=_)\n" % elem
        elif how == "while":
            body = "_k = 0\nwhile _while(n0 > _k, ctx=_) and _k < 2:\n    _k += 1\n    _.t = %s\n    _.s = _.s + _.t\n_endwhile(ctx=_)\n" % elem
        elif how == "if":
            body = "if _if(n0 > 0, ctx=_):\n    _.t = %s\n_endif(ctx=_)\n" % elem
        else:
            body = "if _if(n0 > 0, ctx=_):\n    _.s = _.s + 1\nif _else(ctx=_):\n    _.t = %s\n_endif(ctx=_)\n" % elem
        c.op_src = "_ = BranchingValues()\n_.s = x0 + 0\n" + body + "r = _.t + _.s"
        c.expr = c.op_src
        return c
    if kind == "bool_typed_fresh":
        # a boolean-typed result built from a witness the prover chooses freely (allocated inside the operation): whatever the
        # prover picks, the typed result must be 0 or 1 - also when the same object was converted before, inside a region that was
        # not taken or with checks switched off (anything remembered from that first conversion must not replace the constraint)
        c = Case(kind, "", bl, 0, [], [], "b")
        g, tv = rnd.choice([0, 0, 1]), rnd.randint(0, 1)
        c.inputs = [g, tv]
        c.pre_src = "c0 = PrivValBool(I[0])\n"
        op = rnd.choice(["LinCombBool(t)", "c0 & t", "c0 | t", "LinCombBool(t) & LinCombBool(t)", "~LinCombBool(t)", "LinCombBool(t) ^ c0",
                         # selections between a bit and an integer the prover chooses: if the result is typed boolean it must be one
                         "if_then_else(c0, c0 & c0, t)", "if_then_else(c0, t, ~c0)", "if_then_else(c0, LinCombBool(t), t)",
                         "if_then_else(c0, c0, t * t)"])
        first = rnd.choice(["none", "guarded", "lazy", "ignore", "self-guard"])
        pre = {"none": "", "self-guard": "", "guarded": "@guarded(c0)\ndef _b():\n    return %s\n_b()\n" % op,
               "lazy": "if_then_else(c0, lambda: (%s) + 0, 3)\n" % op,
               "ignore": "import pysnark.runtime as _rt\n_rt.ignore_errors(True)\ntry:\n    _u = %s\nfinally:\n    _rt.ignore_errors(False)\n" % op}[first]
        c.op_src = "t = PrivVal(I[1])\n" + pre + "r = " + op
        if first == "self-guard":
            # the region's own condition object (a plain wire, the constant one while the region lasts) declared boolean inside it
            sop = rnd.choice(["LinCombBool(t)", "LinCombBool(t) & LinCombBool(t)", "~LinCombBool(t)", "LinCombBool(t) | LinCombBool(t)"])
            c.op_src = "t = PrivVal(I[1])\n@guarded(t)\ndef _b():\n    return %s\nr = _b()" % sop
        if first == "none" and rnd.random() < 0.4:
            # a fresh secret boolean declared from a Python bool / int / the public side: it is the prover's to choose, and a bit
            decl = rnd.choice(["PrivValBool(True)", "PrivValBool(False)", "PrivValBool(1)", "PrivValBool(bool(I[1]))", "PubValBool(True)"])
            c.op_src = "t = %s\nr = %s" % (decl, rnd.choice(["t", "t & c0", "~t", "t | c0", "t ^ t", "LinCombBool(t.lc + 0)"]))
        c.expr = c.op_src
        c.bool_only = True
        c.tid = "bool_typed_fresh:" + first
        return c
    if kind == "under_true_guard":
        # the guarded form of every constraint (v*w = y + dummy, guard*dummy = 0) must pin the result just as well
        from vf.opcases import sample_case
        pool = [t for t in G.INT_T + G.BOOL_T if t[1] in ("i", "b") and t[0] not in DIV_FAMILY and t[0] not in SKIP and t[0] not in BITWISE_CONST]
        tid, rty, tmpl = rnd.choice(pool)
        c = sample_case("guarded:" + tid, tmpl, rty, bl, 0, rnd)
        n = len(c.inputs)
        depth = rnd.choice([1, 2])
        c.inputs = c.inputs + [1] * depth
        c.pre_src += "".join("c%d = PrivValBool(I[%d])\n" % (d, n + d) for d in range(depth))
        body = "        return " + c.expr if depth == 2 else "    return " + c.expr
        if depth == 1:
            c.op_src = "@guarded(c0)\ndef _b():\n%s\nr = _b()" % body
        else:
            c.op_src = "@guarded(c0)\ndef _b():\n    @guarded(c1)\n    def _c():\n%s\n    return _c()\nr = _b()" % body
        c.expr = c.op_src
        c.tid = "under_true_guard"
        return c
    if kind == "ignore_mode":
        # valid operands, but the user has switched error checking off: the emitted constraints must be just as binding
        from vf.opcases import sample_case
        pool = [t for t in G.INT_T + G.BOOL_T if t[1] in ("i", "b") and t[0] not in SKIP and t[0] not in BITWISE_CONST]
        tid, rty, tmpl = rnd.choice(pool)
        c = sample_case("ignore:" + tid, tmpl, rty, bl, 0, rnd)
        c.precheck_src = c.op_src
        c.op_src = "import pysnark.runtime as _rt\n_rt.ignore_errors(True)\n" + c.op_src
        c.tid = tid if tid in DIV_FAMILY else "ignore_mode"        # the division family keeps its id: its classifier needs it
        return c
    if kind == "three_level":
        from vf.opcases import sample_case
        pool = [t for t in G.INT_T + G.BOOL_T if t[1] in ("i", "b") and t[0] not in DIV_FAMILY and t[0] not in SKIP and t[0] not in BITWISE_CONST
                and t[0] not in ("pow_ss", "pow_cs", "lshift_ss", "lshift_cs", "rshift_sc", "pow_sc", "lshift_sc")]
        for _ in range(80):
            a, b, cc = rnd.choice(pool), rnd.choice(pool), rnd.choice(pool)
            s1, s2 = "{" + b[1] + "}", "{" + cc[1] + "}"
            if s1 not in a[2] or s2 not in b[2]:
                continue
            mid = b[2].replace(s2, "(" + cc[2] + ")", 1)
            tmpl = a[2].replace(s1, "(" + mid + ")", 1)
            c = sample_case("three_level", tmpl, a[1], bl, 0, rnd)
            return c
        return None
    if kind == "select_lazy":
        c = Case(kind, "", bl, 0, [], [], "i")
        a, b, cond = rnd.randint(-h, h), rnd.randint(-h, h), rnd.randint(0, 1)
        c.inputs = [a, b, cond]
        c.pre_src = "x0 = PrivVal(I[0])\nx1 = PrivVal(I[1])\nx2 = PrivValBool(I[2])\n"
        body_t = rnd.choice(["x0 * x1", "x0 + 1", "abs(x0)", "x0 * x0 + x1", "if_then_else(x0 < x1, x0, x1)"])
        body_f = rnd.choice(["x1", "x1 * x1", "x0 - x1", "if_then_else(x0 == x1, 1, x1)"])
        c.op_src = "r = if_then_else(x2, lambda: %s, lambda: %s)" % (body_t, body_f)
        c.expr = c.op_src
        return c
    raise KeyError(kind)


def gadget_selftest():
    """solver vs brute force on the smallest real gadgets over GF(13)"""
    from vf import boot, capture, solve
    N = boot.Neutral()
    fails = []
    for op, ins in [("r = x0 * x1", (3, 4)), ("r = x0 == x1", (3, 3)), ("r = x0 != x1", (2, 5)), ("r = x0.check_positive()", (1, 0)),
                    ("r = x0.check_positive()", (-1, 0)), ("r = x0 < x1", (0, 1))]:
        c = capture.capture("x0 = PrivVal(I[0])\nx1 = PrivVal(I[1])\n", op, ["r"], ins, N, 1, 0, p=13)
        if c.exc is not None:
            fails.append((op, repr(c.exc)))
            continue
        if len(c.unknowns) > 4:
            continue
        want = solve.brute(c.cons, c.fixed, 13, c.result_lcs, c.unknowns)
        got = solve.solve(c.cons, c.fixed, 13, c.result_lcs)
        g = set(got.values)
        for v0, v1, _, _ in got.free:
            g |= {v0, v1}
        if got.free:
            if not g <= want:
                fails.append((op, sorted(want), sorted(g)))
        elif got.inconclusive or g != want:
            fails.append((op, sorted(want), sorted(g), got.inconclusive))
    return fails


def worker(job):
    from vf import boot, capture, solve, recorder
    from vf.gen import prog as G
    from vf import opcases
    rt = boot.attach()
    N = boot.Neutral()
    R = common.Run(PROP, "exploration", RULE)
    st = solve.selftest() + gadget_selftest()
    if st:
        R.inconc("solver self-test failed: %r" % (st[:2],))
        return R.export()
    R.count("selftest_ok")
    moduli = [recorder.BN254, recorder.BLS381, recorder.C25519]
    for item in job["items"]:
        rnd = random.Random("%s/%s/%d" % (job["seed"], item["tid"], item["bl"]))
        tid, bl = item["tid"], item["bl"]
        cases = []
        if tid in G.ALL_TEMPLATES:
            _, rty, tmpl = G.ALL_TEMPLATES[tid]
            res = rnd.choice([0, 1, 2]) if "f" in opcases.slots(tmpl) or "c" in opcases.slots(tmpl) or "Fxp" in tmpl else 0
            res = min(res, max(0, bl - 1))
            if item["exhaustive"]:
                allc = list(opcases.enumerate_cases(tid, tmpl, rty, bl, res, rnd, cap=20000))
                if len(allc) > item["n"]:
                    allc = rnd.sample(allc, item["n"])
                else:
                    R.count("cells_enumerated_exhaustively")
                cases = allc
            else:
                cases = [opcases.sample_case(tid, tmpl, rty, bl, res, rnd) for _ in range(item["n"])]
        else:
            cases = [c for c in (special_case(tid, bl, rnd) for _ in range(item["n"])) if c is not None]
        for c in cases:
            p = rnd.choice(moduli)
            judge(R, c, p, N, capture, solve)
    return R.export()


def judge(R, c, p, N, capture, solve, maxleaves=60000):
    if getattr(c, "precheck_src", None):
        pre = capture.capture(c.pre_src, c.precheck_src, c.results, c.inputs, N, c.bl, c.res, p=p)
        if pre.exc is not None:
            R.count("operands_invalid_for_ignore_mode_case")
            R.case(nontrivial=False)
            return None
    cap = capture.capture(c.pre_src, c.op_src, c.results, c.inputs, N, c.bl, c.res, p=p)
    R.count("solver_cases")
    if cap.exc is not None:
        R.count("honest_run_raised:" + type(cap.exc).__name__)
        R.case(nontrivial=False)
        return None
    if not cap.satisfied:
        R.count("honest_witness_unsatisfied")   # C01's business; reported there
    if not cap.cons and not cap.unknowns:
        R.count("linear_no_unknowns")
        R.case(nontrivial=False)
        if cap.result_lcs and len(cap.honest) == 1:
            forced_outcome_is_the_honest_one(R, c, cap, p)      # no choice at all: the one outcome must be the honest one
        return None
    res = solve.solve(cap.cons, cap.fixed, p, cap.result_lcs, maxleaves=maxleaves)
    if getattr(c, "bool_only", False):
        # the witness is the prover's choice, so several results are fine - but each of them must be a bit
        R.count("boolean_typed_fresh_witness_cases")
        if res.budget_exceeded or (res.inconclusive and not res.values and not res.free):
            R.count("solver_inconclusive")
            R.case(nontrivial=False)
            return "inconclusive"
        if cap.kinds != ["LinCombBool"]:
            R.count("result_not_typed_boolean")       # e.g. a selection that the library types as an integer: nothing is claimed
            R.case(nontrivial=False)
            return "not-boolean-typed"
        R.count("conclusive")
        R.case(cell="%s|bl%d" % (c.tid, c.bl), key=c.key() + (p,))
        bad = sorted(v[0] for v in res.values if v[0] not in (0, 1))
        if res.free or bad:
            R.violation("boolean-typed-result-admits-non-boolean", "%s: the typed result can be %s" % (
                c.expr.replace("\n", "; "), "anything" if res.free else bad[:3]), case=c.describe(), pre_src=c.pre_src, op_src=c.op_src, p=p)
        return "bool-ok"
    v = res.verdict(cap.honest)
    R.count("solver_leaves", res.leaves)
    R.count("solver_dead_branches", res.dead)
    if v == "inconclusive":
        R.count("solver_inconclusive")
        R.count("solver_inconclusive:" + c.tid.split(":")[0])
        R.case(nontrivial=False)
        return v
    R.count("conclusive")
    R.count("verdict:" + v)
    R.case(cell="%s|bl%d" % (c.tid.split(":")[0] if c.tid.startswith("compose") else c.tid, c.bl), key=c.key() + (p,))
    R.sample(dict(case=c.describe(), p=p, honest=cap.honest, verdict=v, solutions=len(res.values), leaves=res.leaves,
                  constraints=len(cap.cons), unknowns=len(cap.unknowns)), cap=6)
    if v == "unique":
        if "LinCombBool" in cap.kinds:
            for k, hv in zip(cap.kinds, cap.honest):
                if k == "LinCombBool" and hv not in (0, 1):
                    R.violation("boolean-result-not-0-1", "boolean-typed result %s" % hv, case=c.describe(), p=p)
        forced_outcome_is_the_honest_one(R, c, cap, p)
        return v
    mech, what = classify(c, cap, res, v, p)
    R.violation(mech, what, case=c.describe(), pre_src=c.pre_src, op_src=c.op_src, p=p, honest=cap.honest,
                other=[list(x) for x in sorted(res.values)[:4]], free=[[list(f[0]), list(f[1])] for f in res.free[:1]])
    return v


def forced_outcome_is_the_honest_one(R, c, cap, p):
    """'A prover cannot obtain a valid proof for a different comparison outcome ... selected value': for comparison,
    test and selection templates the single outcome the constraints admit is compared with the outcome native Python computes on the plain
    operand values (the reference twin).  Only where the twin raises no flag (operands inside the documented
    domain) and for boolean outcomes - numeric results are C05's business, with its own domain rules."""
    from vf.gen import prog as G
    selection = c.tid.startswith(("ite", "if_else", "lc_if_else", "bifelse")) and len(cap.kinds) == 1
    if c.tid not in G.ALL_TEMPLATES or not (selection or (getattr(c, "rty", None) == "b" and cap.kinds == ["LinCombBool"])):
        return
    if any(isinstance(x, int) and abs(x) > p // 4 for x in c.inputs):
        return
    try:
        ref = G.run_ref(G.Prog(c.pre_src + c.op_src + "\n", [], c.bl, c.res), c.inputs, p=p)
    except Exception:  # noqa
        return
    if ref.exc is not None or ref.flags or "r" not in ref.ns:
        R.count("outcome_not_judged_twin_flags_or_refuses")
        return
    r = ref.ns["r"]
    rv = r.v if hasattr(r, "v") else (r.r if hasattr(r, "r") else r)      # fixed point: the representation
    if not isinstance(rv, (int, bool)) or (not selection and int(rv) not in (0, 1)) or abs(int(rv)) > p // 4:
        return
    if hasattr(r, "r") != (cap.kinds == ["LinCombFxp"]):
        R.count("outcome_not_judged_result_class_differs")      # C14 judges result classes
        return
    R.count("forced_outcomes_compared_with_python")
    if (cap.honest[0] - int(rv)) % p != 0:
        R.violation("forced-outcome-differs-from-python:" + c.tid, "%s on %s: the constraints admit only the outcome %s, Python computes %s" % (
            c.expr.replace("\n", "; "), c.inputs, cap.honest[0], int(rv)), case=c.describe(), pre_src=c.pre_src, op_src=c.op_src, p=p)


def classify(c, cap, res, v, p):
    tid = c.tid
    if v == "unsat":
        return "unsat-honest-op", "%s: no satisfying assignment at all (honest witness rejected)" % c.expr
    if v == "free":
        if tid in BITWISE_CONST and not cap.cons and len(cap.unknowns) == 1 and cap.result_lcs[0] == {cap.unknowns[0]: 1}:
            return "bitwise-int-operand-result-unconstrained", "%s: result wire has no constraint" % c.expr
        return "result-free:" + tid, "%s: result not constrained at all" % c.expr
    # extra solutions
    fam = DIV_FAMILY.get(tid)
    if fam is None and tid.startswith("compose:") and getattr(c, "outer", None) in DIV_FAMILY:
        return "extra-solutions:" + tid, "%s: %d result values (composition with division outer op)" % (c.expr, len(res.values))
    if fam is not None and len(cap.honest) == 1:
        try:
            consts = [int(x) if isinstance(x, int) or str(x).lstrip("-").isdigit() else x for x in c.consts]
            Nn, D, role, mult = fam(c.inputs, consts, c.res)
        except Exception:
            Nn = None
        if Nn is not None and D > 0:
            ok = True
            minv = pow(mult, -1, p)
            for (val,) in res.values:
                x = val * minv % p
                if role == "q":
                    r_ = (Nn - x * D) % p
                    ok = ok and 0 <= r_ < D
                else:
                    ok = ok and 0 <= x < D
            if ok and len(res.values) <= D:
                return "divmod-quotient-unbounded", "%s on %s: %d admissible results, all of the form q*d+r=a with 0<=r<d" % (
                    c.expr, c.inputs, len(res.values))
    return "extra-solutions:" + tid, "%s on %s: %d result values satisfy the constraints (honest %s)" % (
        c.expr, c.inputs, len(res.values), cap.honest)


def replay(path):
    from vf import boot, capture, solve
    from vf.opcases import Case
    boot.attach()
    N = boot.Neutral()
    d = json.load(open(path))["detail"]
    c = Case("replay", "", d["case"]["bl"], d["case"]["res"], d["case"]["inputs"], [], "i")
    c.pre_src, c.op_src = d["pre_src"], d["op_src"]
    c.results = ["r"]
    cap = capture.capture(c.pre_src, c.op_src, c.results, c.inputs, N, c.bl, c.res, p=int(d["p"]))
    res = solve.solve(cap.cons, cap.fixed, cap.p, cap.result_lcs)
    print(c.pre_src + c.op_src, c.inputs, "honest", cap.honest, "verdict", res.verdict(cap.honest), sorted(res.values)[:5], "free", len(res.free))
    return 0
