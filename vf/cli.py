"""python -m vf.cli <Cxx> [--tier quick|thorough] [--replay path]"""
import importlib
import os
import sys


def main(argv):
    from vf import boot
    boot.paths()
    prop = argv[0]
    args = argv[1:]
    if "--tier" in args:
        os.environ["VERIF_TIER"] = args[args.index("--tier") + 1]
    os.environ.setdefault("VERIF_TIER", "quick")
    os.environ.setdefault("PYTHONHASHSEED", "0")
    mod = importlib.import_module("vf.checks." + prop)
    if "--replay" in args:
        return mod.replay(args[args.index("--replay") + 1])
    return mod.main()


if __name__ == "__main__":
    code = main(sys.argv[1:])
    sys.stdout.flush()
    sys.stderr.flush()
    os._exit(code)
