"""Process bootstrap: paths, lazy dependency install, attaching the recording backend.

The code under test is always VERIF_REPO (default /repo), current working tree.
"""
import os
import subprocess
import sys

VERIF = os.path.dirname(os.path.dirname(os.path.abspath(__file__)))
REPO = os.environ.get("VERIF_REPO", "/repo")
DEPS = os.path.join(VERIF, ".deps")
SHIMS = os.path.join(VERIF, "vf", "shims")
PY = "/venv/bin/python"


def ensure_deps():
    if not os.path.exists(os.path.join(DEPS, ".ok")):
        subprocess.run(["/bin/sh", os.path.join(VERIF, "setup.sh")], check=False)
    if DEPS not in sys.path:
        sys.path.append(DEPS)


def paths():
    if sys.path[0] != REPO:
        if REPO in sys.path:
            sys.path.remove(REPO)
        sys.path.insert(0, REPO)
    if VERIF not in sys.path:
        sys.path.insert(1, VERIF)
    ensure_deps()


def child_env(extra=None, shims=()):
    """Environment for a fresh interpreter that must import /repo's pysnark (and optional stand-ins)."""
    env = dict(os.environ)
    pp = [REPO, VERIF] + [os.path.join(SHIMS, s) for s in shims] + [DEPS]
    env["PYTHONPATH"] = os.pathsep.join(pp)
    env["PYTHONHASHSEED"] = "0"
    env["PYTHONDONTWRITEBYTECODE"] = "1"
    env.pop("PYSNARK_BACKEND", None)
    env.pop("PYSNARK_KEYDIR", None)
    env.pop("PYSNARK_PROOFDIR", None)
    env.pop("QAPTOOLS_BIN", None)
    if extra:
        env.update(extra)
    return env


_attached = None


def attach(name="pysnark.nobackend", modulus=None, env_backend=None):
    """Register the recorder under a backend registry name *before* pysnark.runtime is imported."""
    global _attached
    paths()
    sys.dont_write_bytecode = True
    from vf import recorder
    if modulus is not None:
        recorder.set_modulus(modulus)
    if _attached is None:
        if "pysnark.runtime" in sys.modules:
            raise RuntimeError("pysnark.runtime imported before the recorder was attached")
        if env_backend is not None:
            os.environ["PYSNARK_BACKEND"] = env_backend
        else:
            os.environ.pop("PYSNARK_BACKEND", None)
        sys.modules[name] = recorder
        import pysnark.runtime as rt
        if rt.backend is not recorder:
            raise RuntimeError("stage-1 backend adoption did not pick the recorder: %r" % (rt.backend,))
        rt.autoprove = True  # recorder.prove is a no-op counter
        f = os.path.realpath(rt.__file__)
        if not f.startswith(os.path.realpath(REPO) + os.sep):
            raise RuntimeError("pysnark imported from %s, not from %s" % (f, REPO))
        _attached = rt
    return _attached


class Neutral:
    """Re-establish (and optionally assert) the runtime's neutral global state between programs."""

    def __init__(self):
        Neutral.current = self
        self.rt = _attached
        self.dirty = 0
        self.expect = None       # (bitlength, resolution) this harness (or the program, through set_bitlength) set last
        self.drift = []          # [(expected, found)]: the library changed a global width on its own and did not put it back

    def __call__(self, bitlength=16, resolution=8, modulus=None, check=False):
        rt = self.rt
        from vf import recorder
        was = (rt.guard is None and rt._ignore_errors is False and rt.LinComb.ONE is rt.LinComb.ONE_SAFE)
        if not was:
            self.dirty += 1
        rt.guard = None
        rt._ignore_errors = False
        rt.LinComb.ONE = rt.LinComb.ONE_SAFE
        import pysnark.fixedpoint as fx
        self.settings_drift()
        rt.bitlength = bitlength
        fx.resolution = resolution
        self.expect = (bitlength, resolution)
        if modulus is not None:
            recorder.set_modulus(modulus)
        recorder.reset()
        return was


def _settings_drift(self):
    """the global bit length / resolution must be what was set last, whatever the operations in between did (also the refused ones)"""
    import pysnark.fixedpoint as fx
    now = (self.rt.bitlength, fx.resolution)
    if self.expect is not None and now != self.expect:
        self.drift.append((self.expect, now))
        self.expect = now
        return True
    return False


Neutral.settings_drift = _settings_drift
Neutral.current = None


def pyflags():
    """interpreter options that a child script inherits from this worker (python -O / -OO strip assert statements and docstrings)"""
    import sys
    return ["-" + "O" * sys.flags.optimize] if sys.flags.optimize else []


def spread_pyflags(jobs):
    """every fourth job under -O, every eighth under -OO: a user may run any script that way"""
    for i, j in enumerate(jobs):
        if i % 4 == 1:
            j["pyflags"] = ["-OO"] if i % 8 == 5 else ["-O"]
    return jobs
