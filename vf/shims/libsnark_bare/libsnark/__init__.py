"""Stand-in for an installed but incompatible libsnark wheel: importing its curve module fails with an exception that is
neither ImportError nor RuntimeError."""
