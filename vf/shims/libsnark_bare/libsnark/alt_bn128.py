"""Stand-in for a libsnark wheel whose import fails with an exception that carries no arguments."""
raise ImportError
