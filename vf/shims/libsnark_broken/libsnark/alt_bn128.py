raise AttributeError("module 'libsnark' has no attribute 'ProtoboardPub' (incompatible build)")
