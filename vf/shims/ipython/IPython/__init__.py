"""Stand-in for an *installed but not running* IPython: importable, and get_ipython() says there is no shell."""


def get_ipython():
    return None
