"""Stand-in for the native `libsnark` wheel (absent in this sandbox).  Just enough for pysnark.libsnark.backend to be
*importable and traceable* in the C19 configuration matrix; it performs no proving.  Arithmetic of the real library is
NOT observable here."""
