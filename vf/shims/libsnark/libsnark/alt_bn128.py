"""see package docstring: selection-logic stand-in only"""
_P = 21888242871839275222246405745257275088548364400416034343698204186575808495617
__vf_standin__ = True


class PbVariable:
    def __init__(self):
        self.index = None

    def allocate(self, pb):
        pb.vals.append(0)
        self.index = len(pb.vals) - 1


class LinearCombination:
    def __init__(self, x=None):
        if x is None:
            self.d = {}
        elif isinstance(x, PbVariable):
            self.d = {x.index: 1}
        elif isinstance(x, int):
            self.d = {0: x}
        else:
            self.d = dict(x)

    def __add__(self, o):
        d = dict(self.d)
        for k, v in o.d.items():
            d[k] = d.get(k, 0) + v
        return LinearCombination(d)

    def __sub__(self, o):
        return self + (-o)

    def __mul__(self, k):
        return LinearCombination({a: b * k for a, b in self.d.items()})

    def __neg__(self):
        return self * -1


class R1csConstraint:
    def __init__(self, a, b, c):
        self.a, self.b, self.c = a, b, c


class ProtoboardPub:
    def __init__(self):
        self.vals = [1]
        self.public = []
        self.constraints = []

    def setval(self, v, val):
        self.vals[v.index] = val

    def setpublic(self, v):
        self.public.append(v.index)

    def add_r1cs_constraint(self, c):
        self.constraints.append(c)

    def num_constraints(self):
        return len(self.constraints)


def fieldinverse(v):
    return pow(v, -1, _P)


def get_modulus():
    return _P
