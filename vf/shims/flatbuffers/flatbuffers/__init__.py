"""Minimal, API-compatible stand-in for the `flatbuffers` package (NOT installed in this sandbox and not in the
wheelhouse).  Only the Builder subset that pysnark's generated zkinterface code calls is provided.  It lays bytes
out as the FlatBuffers wire format specifies (back-to-front construction, vtables with de-duplication, size prefix).
Trusted base for C11: this file; under test: what pysnark feeds to the Builder and in which order.
If a real `flatbuffers` is importable it shadows nothing here - the checks put this directory on PYTHONPATH only
when `import flatbuffers` fails."""
import struct

from . import compat, number_types  # noqa: F401

__vf_standin__ = True


class Builder:
    def __init__(self, initialSize=1024):
        self.Bytes = bytearray(initialSize)
        self.head = initialSize
        self.minalign = 1
        self.current_vtable = None
        self.objectEnd = None
        self.vtables = {}
        self.nested = False
        self.finished = False

    def Offset(self):
        return len(self.Bytes) - self.head

    def _grow(self):
        n = len(self.Bytes)
        nb = bytearray(n * 2 if n else 1)
        nb[len(nb) - n:] = self.Bytes
        self.head += len(nb) - n
        self.Bytes = nb

    def Pad(self, n):
        for _ in range(n):
            self.head -= 1
            self.Bytes[self.head] = 0

    def Prep(self, size, additional):
        if size > self.minalign:
            self.minalign = size
        alignSize = (~(len(self.Bytes) - self.head + additional)) + 1
        alignSize &= (size - 1)
        while self.head < alignSize + size + additional:
            self._grow()
        self.Pad(alignSize)

    def _place(self, fmt, x):
        sz = struct.calcsize(fmt)
        self.head -= sz
        struct.pack_into(fmt, self.Bytes, self.head, x)

    def _prepend(self, fmt, x):
        self.Prep(struct.calcsize(fmt), 0)
        self._place(fmt, x)

    def PrependByte(self, x):
        self._prepend("<B", x)

    def PrependUint8(self, x):
        self._prepend("<B", x)

    def PrependBool(self, x):
        self._prepend("<B", 1 if x else 0)

    def PrependUint32(self, x):
        self._prepend("<I", x)

    def PrependUint64(self, x):
        self._prepend("<Q", x)

    def PrependInt64(self, x):
        self._prepend("<q", x)

    def PrependUOffsetTRelative(self, off):
        self.Prep(4, 0)
        if not off <= self.Offset():
            raise ValueError("flatbuffers: Offset arithmetic error.")
        self._place("<I", self.Offset() - off + 4)

    def StartVector(self, elemSize, numElems, alignment):
        if self.nested:
            raise ValueError("flatbuffers: object serialization must not be nested")
        self.nested = True
        self.vectorNumElems = numElems
        self.Prep(4, elemSize * numElems)
        self.Prep(alignment, elemSize * numElems)
        return self.Offset()

    def EndVector(self, *a):
        if not self.nested:
            raise ValueError("flatbuffers: EndVector without StartVector")
        self.nested = False
        self._place("<I", a[0] if a else self.vectorNumElems)
        return self.Offset()

    def StartObject(self, numfields):
        if self.nested:
            raise ValueError("flatbuffers: object serialization must not be nested")
        self.current_vtable = [0] * numfields
        self.objectEnd = self.Offset()
        self.nested = True

    def Slot(self, slotnum):
        self.current_vtable[slotnum] = self.Offset()

    def PrependUOffsetTRelativeSlot(self, o, x, d):
        if x != d:
            self.PrependUOffsetTRelative(x)
            self.Slot(o)

    def PrependUint8Slot(self, o, x, d):
        if x != d:
            self.PrependUint8(x)
            self.Slot(o)

    def PrependBoolSlot(self, o, x, d):
        if x != d:
            self.PrependBool(x)
            self.Slot(o)

    def PrependUint64Slot(self, o, x, d):
        if x != d:
            self.PrependUint64(x)
            self.Slot(o)

    def PrependInt64Slot(self, o, x, d):
        if x != d:
            self.PrependInt64(x)
            self.Slot(o)

    def EndObject(self):
        if not self.nested:
            raise ValueError("flatbuffers: EndObject without StartObject")
        self.nested = False
        self.Prep(4, 0)
        self._place("<i", 0)                      # placeholder for the soffset to the vtable
        objectOffset = self.Offset()
        vt = list(self.current_vtable)
        while vt and vt[-1] == 0:
            vt.pop()
        fields = [(objectOffset - off) if off else 0 for off in vt]
        tsize = objectOffset - self.objectEnd
        key = (tuple(fields), tsize)
        existing = self.vtables.get(key)
        if existing is None:
            for f in reversed(fields):
                self.Prep(2, 0)
                self._place("<H", f)
            self.Prep(2, 0)
            self._place("<H", tsize)
            self.Prep(2, 0)
            self._place("<H", (len(fields) + 2) * 2)
            vtoff = self.Offset()
            self.vtables[key] = vtoff
            struct.pack_into("<i", self.Bytes, len(self.Bytes) - objectOffset, vtoff - objectOffset)
        else:
            struct.pack_into("<i", self.Bytes, len(self.Bytes) - objectOffset, existing - objectOffset)
        self.current_vtable = None
        return objectOffset

    def FinishSizePrefixed(self, root, file_identifier=None):
        return self._finish(root, True)

    def Finish(self, root, file_identifier=None):
        return self._finish(root, False)

    def _finish(self, root, size_prefix):
        self.Prep(self.minalign, 4 + (4 if size_prefix else 0))
        self.PrependUOffsetTRelative(root)
        if size_prefix:
            self._place("<I", self.Offset())
        self.finished = True
        return self.head

    def Output(self):
        if not self.finished:
            raise ValueError("flatbuffers: Builder not finished")
        return bytes(self.Bytes[self.head:])
