class _F:
    py_type = int


class UOffsetTFlags(_F):
    pass


class Uint8Flags(_F):
    pass


class Uint64Flags(_F):
    pass


class Int64Flags(_F):
    pass


class BoolFlags:
    py_type = bool
