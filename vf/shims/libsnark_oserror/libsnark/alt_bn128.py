"""Stand-in for a libsnark wheel whose native library cannot be loaded: the import fails with OSError(errno, text)."""
import errno
raise OSError(errno.ENOENT, "cannot open shared object file", "libsnark.so")
