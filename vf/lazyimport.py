"""Import-order family: the library's optional modules (boolean, fixedpoint, branching, array, pack, hashes) are imported lazily,
some of them by the library itself (a first `<` pulls in pysnark.fixedpoint).  Whatever a module computes or captures at
import time must not depend on WHERE that first import happened - in particular not on a guard that was active then.

One fresh interpreter per variant: the first use / import happens (a) at top level, (b) inside a region whose secret guard is
false, (c) inside a region whose guard is true.  Afterwards the same battery runs outside any region; its results, its
canonical trace and the satisfaction of everything emitted must be the same in all three.  Shared by C08 (meaning of
constants after a region), C03, C17 and C20, each with its own part of the battery."""
import json
import os
import subprocess
import tempfile

from vf import boot

SCRIPT = r'''
import sys, json, hashlib
sys.path.insert(0, %(verif)r)
from vf import boot, recorder, r1cs
rt = boot.attach()
loaded_before = sorted(m for m in sys.modules if m.startswith("pysnark."))
from pysnark.runtime import PrivVal, PubVal, guarded, LinComb, snark
WHERE = %(where)r
early_snark = snark(lambda u, w: [u * 2, w + u])          # decorated before any optional module is loaded
gbit = PrivVal(0 if WHERE == "false" else 1)


def first_use():
    a, b = PrivVal(3), PrivVal(5)
    t = a < b                                   # the library imports pysnark.boolean / pysnark.fixedpoint itself here
    # the constants the battery below uses are met for the first time here, inside the region (anything the library remembers
    # about a constant - a converted bound, a cached wire - was then built while the guard was active)
    a.assert_le(7); a.assert_lt(7); b.assert_ge(3); a.assert_eq(3); a.assert_ne(7); a.assert_range(2, 7); u = (a + 3 - 1) * 2; v = a < 7
    import pysnark.branching, pysnark.fixedpoint, pysnark.array, pysnark.pack, pysnark.linalg, pysnark.ggh_hash
    try:
        import pysnark.poseidon_hash
    except NotImplementedError:
        pass
    return 0


if WHERE == "top":
    first_use()
else:
    guarded(gbit)(first_use)()
assert rt.guard is None and rt._ignore_errors is False and LinComb.ONE is LinComb.ONE_SAFE, "region state not restored"
mark = len(recorder.events)
res = {}
PARTS = %(parts)r
from pysnark.fixedpoint import PrivValFxp, LinCombFxp
from pysnark.boolean import PrivValBool, LinCombBool
from pysnark.branching import if_then_else, BranchingValues, _if, _else, _endif
if "constants" in PARTS:
    f = PrivValFxp(1.5)
    f.assert_eq(1.5)
    f.assert_lt(2)
    res["fxp_plus_const"] = (f + 2.25).val()
    res["fxp_times_const"] = (f * 2.5).val()
    res["fxp_cmp_const"] = (f < 1.75).val()
    res["int_cmp_const"] = (PrivVal(3) < 7).val()
    PrivVal(5).assert_le(7); PrivVal(6).assert_lt(7); PrivVal(4).assert_ge(3); PrivVal(3).assert_eq(3); PrivVal(5).assert_ne(7); PrivVal(4).assert_range(2, 7)
    res["pow0"] = (PrivVal(5) ** 0).val()
    res["const_plus"] = (PrivVal(4) + 3 - 1).val()
    res["bool_and_const"] = (PrivValBool(1) & 1).val()
    res["ite_const"] = if_then_else(PrivValBool(0), 7, 9).val()
    _ = BranchingValues()
    _.x = PrivVal(2)
    if _if(PrivValBool(1), ctx=_):
        _.x = _.x + 5
    if _else(ctx=_):
        _.x = _.x * 0 + 1
    _endif(ctx=_)
    res["block"] = _.x.val()
    from pysnark.array import Array
    res["array"] = (Array([PrivVal(4), 6, PrivVal(8)])[PrivVal(1)] + 0).val()
    from pysnark.pack import PackIntMod
    res["pack"] = PackIntMod(10).unpack(PackIntMod(10).pack(PrivVal(7)), 0).val()
if "snark" in PARTS:
    r = early_snark(3, 1.5)
    res["snark_result_types"] = [type(x).__name__ for x in r]
    res["snark_result"] = [float(x) if isinstance(x, (int, float)) else repr(x) for x in r]
if "hash" in PARTS:
    import pysnark.ggh_hash as gh
    res["ggh"] = gh.ggh_hash([PrivVal(1), PrivVal(0), 1, PrivVal(1)]).value %% recorder.modulus
    try:
        import pysnark.poseidon_hash as ph
        res["poseidon"] = [h.value %% recorder.modulus for h in ph.poseidon_hash([PrivVal(1), PrivVal(2), PrivVal(3), PrivVal(4), PrivVal(5)])]
        st = [PrivVal(k) for k in range(ph.t)]
        before = [x.value for x in st]
        once = [h.value %% recorder.modulus for h in ph.permute(st)]            # the same list object handed in twice
        again = [h.value %% recorder.modulus for h in ph.permute(st)]
        res["permute_repeatable"] = once == again and [x.value for x in st] == before
        res["permute"] = once
    except NotImplementedError:
        res["poseidon"] = "not implemented for this backend"
snap = recorder.snapshot()
bad = r1cs.unsatisfied(snap["constraints"], snap["values"], snap["p"])
tr = r1cs.canon_trace(snap)[mark:]
_wm = {0: 0}
def _w(k):
    if k not in _wm:
        _wm[k] = len(_wm)
    return _wm[k]
# wires renumbered by first appearance within the battery: what came before it (the first use, guarded or not) does not count
tr = [(("con",) + tuple(tuple(sorted((_w(k), c) for k, c in lc)) for lc in e[1:])) if e[0] == "con" else (e[0], _w(e[1])) for e in tr]
rt.autoprove = False
json.dump(dict(res=res, unsatisfied=bad[:5], battery_events=len(recorder.events) - mark, loaded_before=loaded_before,
               trace=hashlib.sha1(repr(tr).encode()).hexdigest()), open("out.json", "w"), default=str)
'''


def run_family(R, parts, home=None, label="lazy-import"):
    """runs the three variants; reports through R (a common.Run). Returns the number of comparisons made."""
    outs = {}
    for where in ("top", "false", "true"):
        wd = tempfile.mkdtemp(prefix="lazyimp-", dir=home or os.getcwd())
        try:
            open(os.path.join(wd, "prog.py"), "w").write(SCRIPT % dict(verif=boot.VERIF, where=where, parts=list(parts)))
            pr = subprocess.run([boot.PY, "prog.py"], cwd=wd, env=boot.child_env(), stdout=subprocess.PIPE, stderr=subprocess.PIPE, timeout=300)
            if os.path.exists(os.path.join(wd, "out.json")):
                outs[where] = json.load(open(os.path.join(wd, "out.json")))
            else:
                lines = [ln for ln in pr.stderr.decode(errors="replace").strip().splitlines() if not ln.startswith("***")]
                outs[where] = dict(error=(lines[-1:] or ["no output"])[0][:200])
        finally:
            import shutil
            shutil.rmtree(wd, ignore_errors=True)
    top = outs["top"]
    if "error" in top:
        R.inconc("%s: the control variant (imports at top level) failed: %s" % (label, top["error"]))
        return 0
    if any(m in top["loaded_before"] for m in ("pysnark.fixedpoint", "pysnark.boolean", "pysnark.branching")):
        R.inconc("%s: optional modules were already loaded before the first use (%s)" % (label, top["loaded_before"]))
        return 0
    n = 0
    for where in ("false", "true"):
        o = outs[where]
        R.case(cell="%s|first-import-under-%s-guard|%s" % (label, where, "+".join(parts)), key=(label, where, tuple(parts)))
        det = dict(first_import="inside a region whose guard is %s" % where, parts=list(parts), control=top.get("res"), got=o.get("res", o.get("error")))
        if "error" in o:
            R.violation("first-import-inside-region-breaks-later-use", "after the optional modules were first imported inside a region (guard %s) the battery failed: %s" % (where, o["error"]), **det)
            continue
        R.count("lazy_import_variants_compared")
        n += 1
        diff = sorted(k for k in top["res"] if o["res"].get(k) != top["res"][k])
        if diff:
            R.violation("first-import-inside-region-changes-results", "first import inside a region (guard %s): %s = %r, with imports at top level %r" % (
                where, diff[0], o["res"].get(diff[0]), top["res"][diff[0]]), **det)
        elif o["unsatisfied"]:
            R.violation("first-import-inside-region-unsatisfied", "first import inside a region (guard %s): constraint %s unsatisfied" % (where, o["unsatisfied"][:3]), **det)
        elif o["trace"] != top["trace"] or o["battery_events"] != top["battery_events"]:
            R.violation("first-import-inside-region-changes-trace", "first import inside a region (guard %s): the battery emits a different constraint system (%d vs %d events)" % (
                where, o["battery_events"], top["battery_events"]), **det)
    if "snark" in parts and "error" not in top:
        if top["res"].get("snark_result_types") != ["int", "float"] or top["res"].get("snark_result") != [6.0, 4.5]:
            R.violation("early-decorated-snark-returns-wires", "a function wrapped before the optional modules were loaded returned %r (%r)" % (
                top["res"].get("snark_result"), top["res"].get("snark_result_types")), parts=list(parts))
    if "hash" in parts and top["res"].get("permute_repeatable") is False:
        R.violation("permutation-not-repeatable", "permute() called twice on the same state list gave different results or changed the caller's list", parts=list(parts))
    return n
