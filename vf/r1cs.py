"""Independent R1CS evaluator over plain dict linear combinations."""


def eval_lc(lc, values, p):
    s = 0
    for k, c in lc.items():
        s += values[k] * c
    return s % p


def unsatisfied(constraints, values, p):
    bad = []
    for n, (a, b, c) in enumerate(constraints):
        if (eval_lc(a, values, p) * eval_lc(b, values, p) - eval_lc(c, values, p)) % p:
            bad.append(n)
    return bad


def canon_lc(lc, p):
    """Canonical, value-free form of an LC: sorted (var, coeff mod p); zero coefficients are kept."""
    return tuple(sorted((k, c % p) for k, c in lc.items()))


def canon_trace(snap):
    p = snap["p"]
    out = []
    for e in snap["events"]:
        if e[0] == "con":
            a, b, c = snap["constraints"][e[1]]
            out.append(("con", canon_lc(a, p), canon_lc(b, p), canon_lc(c, p)))
        else:
            out.append((e[0], e[1]))
    return out


def snarkjs_lc(lc, npub):
    """Adapter: snarkjs/zkinterface LinearCombination key k>0 public, k<0 private, 0 one -> wire index."""
    return {(k if k >= 0 else npub - k): v for k, v in lc.items()}
