"""Running generated programs on the *real* snarkjs / zkinterface backends (in-memory lists are the trace)."""
import os
import sys

from vf import boot


def attach_real(name):
    """select a real backend through the library's own environment stage; must run before pysnark.runtime is imported"""
    boot.paths()
    sys.dont_write_bytecode = True
    if "pysnark.runtime" in sys.modules:
        raise RuntimeError("pysnark.runtime already imported")
    os.environ["PYSNARK_BACKEND"] = name
    import pysnark.runtime as rt
    if rt.backend_name != name:
        raise RuntimeError("backend %r selected instead of %r" % (rt.backend_name, name))
    rt.autoprove = False     # proving is invoked explicitly by the checks; the exit hook must not write into cwd
    return rt


class Boundary:
    """what the runtime handed to the backend, recorded at the call boundary (the backend's own lists are under test)"""
    installed = False
    pubvals, privvals, constraints = [], [], []


def install_boundary(rt):
    if Boundary.installed:
        return
    b = rt.backend
    o_priv, o_pub, o_con = b.privval, b.pubval, b.add_constraint

    def privval(val):
        r = o_priv(val)
        Boundary.privvals.append(val)
        return r

    def pubval(val):
        r = o_pub(val)
        Boundary.pubvals.append(val)
        return r

    def add_constraint(v, w, y):
        Boundary.constraints.append((dict(v.lc), dict(w.lc), dict(y.lc)))
        return o_con(v, w, y)
    b.privval, b.pubval, b.add_constraint = privval, pubval, add_constraint
    Boundary.installed = True


def boundary_snapshot(rt):
    return dict(p=rt.backend.get_modulus(), pubvals=list(Boundary.pubvals), privvals=list(Boundary.privvals),
                constraints=[(dict(a), dict(b), dict(c)) for a, b, c in Boundary.constraints])


def reset(rt, bitlength=16, resolution=8):
    b = rt.backend
    del b.privvals[:]
    del b.pubvals[:]
    del b.constraints[:]
    del Boundary.pubvals[:]
    del Boundary.privvals[:]
    del Boundary.constraints[:]
    rt.guard = None
    rt._ignore_errors = False
    rt.LinComb.ONE = rt.LinComb.ONE_SAFE
    rt.bitlength = bitlength
    import pysnark.fixedpoint as fx
    fx.resolution = resolution


def snapshot(rt):
    b = rt.backend
    return dict(p=b.get_modulus(), pubvals=list(b.pubvals), privvals=list(b.privvals),
                constraints=[(dict(c[0].lc), dict(c[1].lc), dict(c[2].lc)) for c in b.constraints])


def run_src(rt, src, inputs, bl=16, res=8):
    from vf.gen import prog as G
    reset(rt, bl, res)
    ns = G.api_names()
    ns["I"] = list(inputs)
    out = G.run_chunks(G.compile_chunks(src), ns)
    G.cleanup_api_ns(ns)
    rt.guard = None
    rt._ignore_errors = False
    rt.LinComb.ONE = rt.LinComb.ONE_SAFE
    return out


def wires(snap):
    """wire assignment in the documented numbering: constant one, public values, private values"""
    return [1] + list(snap["pubvals"]) + list(snap["privvals"])


def wire_of(k, npub):
    return k if k >= 0 else npub - k


def hostile_program(rnd, p):
    """straight-line field arithmetic whose values are aimed at the classes the file formats must survive:
    negative, >= p, wider than 256 bits, zero coefficients, empty linear combinations, no public values, no constraints"""
    vals = [-3, -1, 0, 1, p - 1, p, p + 5, 2 * p + 1, -p - 2, (1 << 256) - 1, 1 << 256, (1 << 300) + 12345, -(1 << 270), 7, 123456789,
            255, 256, 257, 65535, 65536, 16, 5, p + 7, 2 * p]
    n = rnd.randint(1, 4)
    inputs = [rnd.choice(vals) for _ in range(n)]
    lines = []
    pub = rnd.random() < 0.7
    for i in range(n):
        lines.append("x%d = %s(I[%d])" % (i, "PubVal" if (pub and rnd.random() < 0.35) else "PrivVal", i))
    names = ["x%d" % i for i in range(n)]
    for j in range(rnd.randint(0, 6)):
        a, b = rnd.choice(names), rnd.choice(names)
        k = rnd.choice([0, 1, -1, 2, p, p + 1, -p, 1 << 260, 3, 1 << 61, (1 << 61) - 1, (1 << 61) + 1, 1 << 122, (1 << 61) - 2])   # hash(2**61) == hash(1)
        st = rnd.choice(["{a} * {b}", "{a} + {b}", "{a} - {b}", "{a} * %d" % k, "{a} + %d" % k, "{a} - {a}", "{a} * {a} - {b}",
                         "({a} - {a}) * {b}", "{a} * 0 + {b}", "{a} + LinComb.ZERO", "{a} - LinComb.ZERO", "LinComb.ZERO + {a}", "LinComb.ZERO - {a}",
                         "{a} * {b} + LinComb.ZERO * 5", "({a} + {b}) + ({a} - {a})", "{a} + ({a} * 2 + {b})", "({a} * 2 + {b}) + {a}", "ConstVal(%d) * {a}" % k, "{a} * ConstVal(12)",
                         "(ConstVal(%d) + 0) * ({b} + ConstVal(3))" % k, "{a} * {a}"]).format(a=a, b=b)
        name = "v%d" % j
        lines.append("%s = %s" % (name, st))
        names.append(name)
    for j in range(rnd.randint(0, 3)):
        a = rnd.choice(names)
        lines.append(rnd.choice(["(%s - %s).assert_zero()" % (a, a), "o%d = %s.val()" % (j, a) if pub else "(%s * 0).assert_zero()" % a,
                                 "LinComb.ZERO.assert_zero()", "z%d = (%s - %s).check_zero()" % (j, a, a),
                                 "(%s * 1).assert_eq(%s)" % (a, a), "z%d = (%s - %s).check_zero()" % (j, a, rnd.choice(names)),
                                 "z%d = (%s == %s)" % (j, a, rnd.choice(names)), "(%s + 1 - %s).assert_nonzero()" % (a, a)]))
    return "\n".join(lines) + "\n", inputs


def sized_program(npub, npriv, ncons):
    """a program with exactly npub public values, npriv further private values and >= ncons constraints: buffer growth, section
    sizes and count fields of the writers are exercised at every size, not only at the sizes ordinary programs happen to have"""
    lines = ["pubs = [PubVal(I[0] + k) for k in range(%d)]" % npub, "privs = [PrivVal(I[1] - k) for k in range(%d)]" % npriv,
             "allv = pubs + privs"]
    if ncons:
        lines.append("for k in range(%d):\n    if len(allv) > 1:\n        (allv[k %% len(allv)] * allv[(k + 1) %% len(allv)]).assert_eq(allv[k %% len(allv)].value * allv[(k + 1) %% len(allv)].value)" % ncons)
    return "\n".join(lines) + "\n", [3, -4]
