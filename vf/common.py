"""Verdict / evidence / known-findings / replay plumbing shared by all checks."""
import json
import os
import random
import sys
import time

sys.set_int_max_str_digits(0)

from vf.boot import VERIF

EXIT_HELD, EXIT_VIOLATION, EXIT_INCONCLUSIVE = 0, 1, 2


def tier():
    return os.environ.get("VERIF_TIER", "quick")


def seed():
    try:
        return int(os.environ.get("VERIF_SEED", "0"))
    except ValueError:
        return 0


def rng(*salt):
    return random.Random("%d/%s" % (seed(), "/".join(map(str, salt))))


def load_known():
    path = os.path.join(VERIF, "known_findings.json")
    with open(path) as f:
        return json.load(f)["findings"]


def jsonable(x):
    if isinstance(x, (str, int, float, bool)) or x is None:
        if isinstance(x, int) and not isinstance(x, bool) and abs(x) >= 1 << 63:
            return str(x)
        return x
    if isinstance(x, dict):
        return {str(k): jsonable(v) for k, v in x.items()}
    if isinstance(x, (list, tuple, set, frozenset)):
        return [jsonable(v) for v in (sorted(x, key=repr) if isinstance(x, (set, frozenset)) else x)]
    return repr(x)


class Run:
    """Collects what a check observed and turns it into verdict + evidence."""

    def __init__(self, prop, level, rule, tier_=None):
        self.prop = prop
        self.level = level
        self.rule = rule
        self.tier = tier_ or tier()
        self.seed = seed()
        self.t0 = time.time()
        self.evaluations = 0
        self.cells = {}            # cell -> count of non-trivial cases
        self.samples = []
        self.violations = []       # dicts with at least "mech", "what"
        self.inconclusive = []     # reasons
        self.extra = {}
        self.assumptions = []
        self.counters = {}
        self.keys = set()          # hashes of distinct non-trivial cases (when the check supplies keys)

    # -- observation -------------------------------------------------------
    def count(self, name, n=1):
        self.counters[name] = self.counters.get(name, 0) + n

    def case(self, cell=None, n=1, key=None, nontrivial=True):
        """one explored case. cell = coverage cell(s) it belongs to; key = identity used for distinctness"""
        self.evaluations += n
        if not nontrivial:
            return
        if key is not None:
            self.keys.add(hash(key) & 0xFFFFFFFFFFFF)
        if cell is not None:
            for c in (cell if isinstance(cell, (list, set, tuple)) and not isinstance(cell, str) else [cell]):
                c = c if isinstance(c, str) else "|".join(map(str, c))
                self.cells[c] = self.cells.get(c, 0) + n

    def sample(self, s, cap=8):
        if len(self.samples) < cap:
            self.samples.append(jsonable(s))

    def violation(self, mech, what, **detail):
        self.violations.append(dict(mech=mech, what=str(what)[:600], detail=jsonable(detail)))

    def inconc(self, reason):
        self.inconclusive.append(reason)

    def merge(self, part):
        """Merge the dict produced by Run.export() in a worker."""
        self.evaluations += part["evaluations"]
        for c, n in part["cells"].items():
            self.cells[c] = self.cells.get(c, 0) + n
        for s in part["samples"]:
            self.sample(s)
        self.violations.extend(part["violations"])
        self.inconclusive.extend(part["inconclusive"])
        for k, v in part["counters"].items():
            self.counters[k] = self.counters.get(k, 0) + v
        self.keys.update(part.get("keys", ()))

    def export(self):
        return dict(evaluations=self.evaluations, cells=self.cells, samples=self.samples,
                    violations=self.violations[:200], inconclusive=self.inconclusive[:50], counters=self.counters,
                    keys=sorted(self.keys))

    # -- verdict -----------------------------------------------------------
    def finish(self, require_counters=(), min_cells=2):
        known = [k for k in load_known() if k["property"] == self.prop]
        open_keys = {k["key"]: k for k in known if k.get("status") == "open"}
        unknown, matched = [], {}
        for v in self.violations:
            if v["mech"] in open_keys:
                matched.setdefault(v["mech"], []).append(v)
            else:
                unknown.append(v)
        for c in require_counters:
            if not self.counters.get(c):
                self.inconc("deciding monitor never reached: counter %s = 0" % c)
        distinct = len(self.keys) if self.keys else len(self.cells)
        if len(self.cells) < min_cells or distinct < 2:
            self.inconc("only %d distinct non-trivial cells / %d distinct cases observed" % (len(self.cells), distinct))
        cov = dict(evaluations=self.evaluations, distinct_nontrivial=distinct, distinct_cells=len(self.cells), rule=self.rule,
                   samples=self.samples or ["<none>"], cells=dict(sorted(self.cells.items())),
                   counters=dict(sorted(self.counters.items())),
                   known_findings_seen={k: len(v) for k, v in matched.items()},
                   inconclusive=self.inconclusive[:20])
        cov.update(jsonable(self.extra))
        if self.level == "translation_validation":
            cov.setdefault("programs", self.evaluations)
            cov.setdefault("disagreements_checked", self.counters.get("comparisons", 0))
        ev = dict(property_id=self.prop, tier=self.tier, seed=self.seed, level=self.level, coverage=cov,
                  assumptions=self.assumptions, wall_s=round(time.time() - self.t0, 2), violations=len(unknown))
        outroot = os.environ.get("VERIF_OUT", VERIF)     # mutant self-tests write their evidence/replays elsewhere
        os.makedirs(os.path.join(outroot, "evidence"), exist_ok=True)
        with open(os.path.join(outroot, "evidence", self.prop + ".json"), "w") as f:
            json.dump(ev, f, indent=1, sort_keys=True)
            f.write("\n")
        for key, vs in sorted(matched.items()):
            print("KNOWN-FINDING: property=%s %s [%d occurrence(s) this run, e.g. %s]" % (
                self.prop, open_keys[key]["what"], len(vs), vs[0]["what"]))
        print("%s %s tier=%s seed=%d evaluations=%d cells=%d wall=%.1fs counters=%s" % (
            self.prop, "observed", self.tier, self.seed, self.evaluations, len(self.cells), time.time() - self.t0,
            json.dumps(dict(sorted(self.counters.items())))))
        if unknown:
            rdir = os.path.join(outroot, "replay", self.prop)
            os.makedirs(rdir, exist_ok=True)
            seen = {}
            for v in unknown:
                seen.setdefault(v["mech"], []).append(v)
            n = 0
            for mech, vs in sorted(seen.items(), key=lambda kv: -len(kv[1])):
                v = vs[0]
                path = os.path.join(rdir, "%d.json" % n)
                with open(path, "w") as f:
                    json.dump(dict(property=self.prop, seed=self.seed, tier=self.tier, occurrences=len(vs), **v), f, indent=1)
                print("VIOLATION property=%s replay=%s  # [%d x] %s: %s" % (self.prop, path, len(vs), mech, v["what"]))
                n += 1
                if n >= 25:
                    break
            print("%s: %d violation(s) not covered by known_findings.json" % (self.prop, len(unknown)))
            for r in self.inconclusive[:3]:
                print("  (also inconclusive: %s)" % str(r)[:300])
            return EXIT_VIOLATION
        if self.inconclusive:
            for r in self.inconclusive[:10]:
                print("INCONCLUSIVE property=%s reason=%s" % (self.prop, r))
            return EXIT_INCONCLUSIVE
        print("%s: held on everything explored" % self.prop)
        return EXIT_HELD
