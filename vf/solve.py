"""Witness-space checker: all values a result can take over ALL assignments of the unknown variables of a
recorded constraint system (operands fixed).  DESIGN.md 2.4.

Every unknown is an affine form over parameters; a constraint A*B=C becomes a polynomial of degree <= 2:
  constant  -> checked (contradiction kills the branch)
  linear    -> one parameter eliminated
  quadratic in exactly one parameter -> roots in GF(p) (Tonelli-Shanks), branch on each root
  otherwise -> deferred, retried after the next substitution.
Leaves: result constant (one possible value) / depends on a parameter no pending constraint mentions (FREE) /
depends on a parameter of a pending constraint (INCONCLUSIVE).

Every non-honest solution returned is *certified*: a concrete assignment is produced and re-checked with the
independent evaluator (vf.r1cs), so a solver bug can cause a miss or an inconclusive, never a false alarm.
"""
from vf import r1cs


class Dead(Exception):
    pass


class Budget(Exception):
    pass


def sqrt_mod(a, p):
    a %= p
    if a == 0:
        return [0]
    if p == 2:
        return [a]
    if pow(a, (p - 1) // 2, p) != 1:
        return []
    if p % 4 == 3:
        r = pow(a, (p + 1) // 4, p)
        return sorted({r, p - r})
    q, s = p - 1, 0
    while q % 2 == 0:
        q //= 2
        s += 1
    z = 2
    while pow(z, (p - 1) // 2, p) != p - 1:
        z += 1
    m, c, t, r = s, pow(z, q, p), pow(a, q, p), pow(a, (q + 1) // 2, p)
    while t != 1:
        i, tt = 0, t
        while tt != 1:
            tt = tt * tt % p
            i += 1
        b = pow(c, 1 << (m - i - 1), p)
        m, c = i, b * b % p
        t, r = t * c % p, r * b % p
    return sorted({r, p - r})


# affine form: dict param -> coef, key None = constant term
def aff_add(a, b, p, k=1):
    r = dict(a)
    for t, c in b.items():
        v = (r.get(t, 0) + k * c) % p
        if v:
            r[t] = v
        else:
            r.pop(t, None)
    return r


def aff_scale(a, k, p):
    k %= p
    return {t: c * k % p for t, c in a.items()} if k else {}


class State:
    __slots__ = ("p", "val", "pending")

    def __init__(self, p):
        self.p = p
        self.val = {}       # var -> affine form
        self.pending = []

    def copy(self):
        n = State(self.p)
        n.val = dict(self.val)
        n.pending = list(self.pending)
        return n

    def lc(self, d):
        r = {}
        p = self.p
        for v, c in d.items():
            f = self.val.get(v)
            if f is None:
                f = self.val[v] = {("t", v): 1}
            c %= p
            if not c:
                continue
            for t, cc in f.items():
                x = (r.get(t, 0) + c * cc) % p
                if x:
                    r[t] = x
                else:
                    r.pop(t, None)
        return r

    def assign(self, t, expr):
        p = self.p
        for v, f in self.val.items():
            if t in f:
                c = f[t]
                r = {k: x for k, x in f.items() if k != t}
                self.val[v] = aff_add(r, expr, p, c)


def poly(A, B, C, p):
    quad, lin = {}, {}
    for t, c in A.items():
        for u, d in B.items():
            cd = c * d % p
            if t is None and u is None:
                lin[None] = (lin.get(None, 0) + cd) % p
            elif t is None:
                lin[u] = (lin.get(u, 0) + cd) % p
            elif u is None:
                lin[t] = (lin.get(t, 0) + cd) % p
            else:
                k = (t, u) if repr(t) <= repr(u) else (u, t)
                quad[k] = (quad.get(k, 0) + cd) % p
    for t, c in C.items():
        lin[t] = (lin.get(t, 0) - c) % p
    return {k: v for k, v in quad.items() if v}, {k: v for k, v in lin.items() if v}


def _params(quad, lin):
    ps = {t for k in quad for t in k}
    ps.update(t for t in lin if t is not None)
    return ps


def _propagate(st):
    """process pending constraints until a branch is needed. Returns None (fixpoint) or list of child states."""
    p = st.p
    while True:
        progress = False
        items = st.pending
        st.pending = []
        newpend = []
        for idx, con in enumerate(items):
            A, B, C = st.lc(con[0]), st.lc(con[1]), st.lc(con[2])
            quad, lin = poly(A, B, C, p)
            params = _params(quad, lin)
            if not params:
                if lin.get(None, 0):
                    raise Dead()
                progress = True
                continue
            if not quad:
                t = min((x for x in lin if x is not None), key=repr)
                inv = pow(lin[t], -1, p)
                expr = aff_scale({k: v for k, v in lin.items() if k != t}, -inv, p)
                st.assign(t, expr)
                progress = True
                continue
            if len(params) == 1:
                t = next(iter(params))
                a2, a1, a0 = quad.get((t, t), 0), lin.get(t, 0), lin.get(None, 0)
                disc = (a1 * a1 - 4 * a2 * a0) % p
                inv2a = pow(2 * a2, -1, p)
                roots = sorted({(-a1 + r) * inv2a % p for r in sqrt_mod(disc, p)})
                if not roots:
                    raise Dead()
                rest = newpend + items[idx + 1:]
                outs = []
                for r in roots:
                    n = st.copy() if len(roots) > 1 else st
                    n.pending = list(rest)
                    n.assign(t, {None: r} if r else {})
                    outs.append(n)
                return outs
            newpend.append(con)
        st.pending = newpend
        if not progress:
            return None


class Result:
    def __init__(self):
        self.values = {}        # result tuple -> concrete assignment (dict var->value) or None
        self.free = []          # list of (tuple-with-FREE markers, assignment0, assignment1)
        self.leaves = 0
        self.dead = 0
        self.inconclusive = 0
        self.budget_exceeded = False
        self.sampled = 0        # certified assignments found by randomised completion of under-determined leaves

    def verdict(self, honest):
        """'unique' | 'extra' | 'free' | 'unsat' | 'inconclusive'"""
        if self.budget_exceeded or (self.inconclusive and not self.free and set(self.values) <= {honest}):
            return "inconclusive"
        if self.free:
            return "free"
        if not self.values:
            return "unsat"
        if set(self.values) == {honest}:
            return "unique"
        return "extra"


def solve(cons, fixed, p, result_lcs, maxleaves=200000, unknown_hint=()):
    """cons: list of (A,B,C) dicts var->coef; fixed: var->value; result_lcs: list of dict LCs."""
    res = Result()
    st = State(p)
    for v, x in fixed.items():
        st.val[v] = {None: x % p} if x % p else {}
    st.pending = list(cons)
    stack = [st]
    while stack:
        s = stack.pop()
        if res.leaves + res.dead > maxleaves:
            res.budget_exceeded = True
            break
        try:
            kids = _propagate(s)
        except Dead:
            res.dead += 1
            continue
        if kids is not None:
            stack.extend(reversed(kids))
            continue
        res.leaves += 1
        forms = [s.lc(d) for d in result_lcs]
        dep = set()
        for f in forms:
            dep |= {t for t in f if t is not None}
        # deferred (multi-parameter quadratic) constraints: one that contains a parameter occurring only linearly,
        # in no other deferred constraint and not in the result is satisfiable whatever the rest is (this is what a
        # guarded constraint's dummy wire looks like under a false guard); absorb those, in dependency order
        pend = []
        for con in s.pending:
            q, l = poly(s.lc(con[0]), s.lc(con[1]), s.lc(con[2]), p)
            pend.append((q, l, _params(q, l)))
        absorbed = []
        changed = True
        while changed and pend:
            changed = False
            for i, (q, l, ps) in enumerate(pend):
                others = set()
                for j, it in enumerate(pend):
                    if j != i:
                        others |= it[2]
                inquad = {t for k in q for t in k}
                cands = sorted((t for t in l if t is not None and t not in inquad and t not in others and t not in dep), key=repr)
                if cands:
                    absorbed.append((q, l, cands[0]))
                    del pend[i]
                    changed = True
                    break
        pend_params = set()
        for q, l, ps in pend:
            pend_params |= ps
        if dep & pend_params:
            res.inconclusive += 1
            # the deferred constraints are under-determined in several parameters at once: play the cheating prover by sampling -
            # specialise all but one parameter of a deferred constraint, solve for the rest, certify whatever comes out
            _sample(s, result_lcs, cons, p, res)
            continue
        if pend:
            a0 = _concrete(s, _complete({}, absorbed, p))
            if r1cs.unsatisfied(cons, a0, p):
                res.inconclusive += 1
                continue
        if dep:
            t = min(dep, key=repr)
            a0 = _concrete(s, _complete({}, absorbed, p))
            a1 = _concrete(s, _complete({t: 1}, absorbed, p))
            v0 = tuple(r1cs.eval_lc(d, a0, p) for d in result_lcs)
            v1 = tuple(r1cs.eval_lc(d, a1, p) for d in result_lcs)
            if not r1cs.unsatisfied(cons, a0, p) and not r1cs.unsatisfied(cons, a1, p) and v0 != v1:
                res.free.append((v0, v1, a0, a1))
            else:
                res.inconclusive += 1
            continue
        tup = tuple(f.get(None, 0) for f in forms)
        if tup not in res.values:
            a0 = _concrete(s, _complete({}, absorbed, p))
            if r1cs.unsatisfied(cons, a0, p):
                res.inconclusive += 1        # certification failed: never reported as a solution
                continue
            res.values[tup] = a0
    return res


def _sample(s, result_lcs, cons, p, res, tries=24):
    """randomised completion of a leaf whose deferred constraints involve the result; only certified assignments are kept"""
    import random
    rnd = random.Random(res.leaves * 7919 + len(cons))
    for _ in range(tries):
        n = s.copy()
        try:
            for _step in range(4 * len(cons) + 8):
                kids = _propagate(n)
                while kids is not None:
                    n = rnd.choice(kids)
                    kids = _propagate(n)
                multi = []
                for con in n.pending:
                    q, l = poly(n.lc(con[0]), n.lc(con[1]), n.lc(con[2]), p)
                    ps = _params(q, l)
                    if ps:
                        multi.append(sorted(ps, key=repr))
                if not multi:
                    break
                ps = rnd.choice(multi)
                keep = rnd.choice(ps)
                for t in ps:
                    if t != keep:
                        v = rnd.choice([0, 1, 2, p - 1, rnd.randrange(p), rnd.randrange(p)])
                        n.assign(t, {None: v} if v else {})
            else:
                continue
        except Dead:
            continue
        a0 = _concrete(n, {})
        if r1cs.unsatisfied(cons, a0, p):
            continue
        tup = tuple(r1cs.eval_lc(d, a0, p) for d in result_lcs)
        res.sampled += 1
        if tup not in res.values:
            res.values[tup] = a0
            if len(res.values) >= 3:
                return


def _complete(params, absorbed, p):
    """choose the absorbed parameters so that their constraints hold (reverse order of absorption)"""
    params = dict(params)
    for q, l, t in reversed(absorbed):
        e = l.get(None, 0)
        for u, c in l.items():
            if u is not None and u != t:
                e += c * params.get(u, 0)
        for (u, w), c in q.items():
            e += c * params.get(u, 0) * params.get(w, 0)
        params[t] = (-e) * pow(l[t], -1, p) % p
    return params


class _Assign(dict):
    def __missing__(self, k):
        return 0


def _concrete(st, params):
    """concrete assignment var->value with the remaining parameters set to `params` (default 0)"""
    p = st.p
    out = _Assign()
    for v, f in st.val.items():
        x = 0
        for t, c in f.items():
            x += c * (1 if t is None else params.get(t, 0))
        out[v] = x % p
    return out


# --------------------------------------------------------------------------------------------------------
# brute force (self-test oracle for tiny primes)

def brute(cons, fixed, p, result_lcs, unknowns):
    import itertools
    vals = set()
    for combo in itertools.product(range(p), repeat=len(unknowns)):
        a = _Assign(fixed)
        for v, x in zip(unknowns, combo):
            a[v] = x
        if not r1cs.unsatisfied(cons, a, p):
            vals.add(tuple(r1cs.eval_lc(d, a, p) for d in result_lcs))
    return vals


def selftest():
    """synthetic systems with known solution sets; returns list of failures (empty = ok)"""
    fails = []
    p = 101
    # x*x = 4 -> x in {2, 99}
    r = solve([({1: 1}, {1: 1}, {0: 4})], {0: 1}, p, [{1: 1}])
    if set(r.values) != {(2,), (99,)}:
        fails.append(("sqrt", sorted(r.values)))
    # b*(1-b)=0, r = 3b+1 -> {1,4}
    r = solve([({1: 1}, {0: 1, 1: -1}, {}), ({}, {}, {2: 1, 1: -3, 0: -1})], {0: 1}, p, [{2: 1}])
    if set(r.values) != {(1,), (4,)}:
        fails.append(("bool", sorted(r.values)))
    # unconstrained result
    r = solve([({1: 1}, {1: 1}, {0: 4})], {0: 1}, p, [{2: 1}])
    if not r.free:
        fails.append(("free", sorted(r.values)))
    # contradiction
    r = solve([({}, {}, {0: 1})], {0: 1}, p, [{0: 1}])
    if r.values or r.free:
        fails.append(("unsat", sorted(r.values)))
    # product with fixed operands is unique
    r = solve([({1: 1}, {2: 1}, {3: 1})], {0: 1, 1: 7, 2: 9}, p, [{3: 1}])
    if set(r.values) != {(63,)}:
        fails.append(("mul", sorted(r.values)))
    # compare against brute force on random small systems
    import random
    rnd = random.Random(12345)
    for n in range(40):
        p = rnd.choice([5, 7, 11, 13])
        nv = 3
        cons = []
        for _ in range(rnd.randint(1, 3)):
            def lc():
                return {rnd.randint(0, nv): rnd.randint(1, p - 1) for _ in range(rnd.randint(0, 2))}
            cons.append((lc(), lc(), lc()))
        want = brute(cons, {0: 1}, p, [{nv: 1}], list(range(1, nv + 1)))
        r = solve(cons, {0: 1}, p, [{nv: 1}])
        got = set(r.values)
        if r.free:
            for v0, v1, _, _ in r.free:
                got |= {v0, v1}
            if not got <= want:
                fails.append(("brute-free", n, sorted(want), sorted(got)))
        elif not r.inconclusive and got != want:
            fails.append(("brute", n, p, cons, sorted(want), sorted(got)))
        elif r.inconclusive and not got <= want:
            fails.append(("brute-inc", n, sorted(want), sorted(got)))
    return fails
