"""Generated straight-line / guarded programs as Python source text, and their executors.

The same source is executed against the real API (recording backend attached) and against the reference
model (vf.ref.model) – the "native twin".  All randomness comes from the random.Random handed in.
"""
import ast
import sys

from vf.ref import model

GEN_FILENAME = "<vfgen>"


class Prog:
    def __init__(self, src, inputs, bl, res, tags=()):
        self.src = src              # full source text; reads its inputs from the list I
        self.inputs = inputs        # list of (ctor name, primary plain value)
        self.bl = bl
        self.res = res
        self.tags = list(tags)      # template ids used

    def primary(self):
        return [v for _, v in self.inputs]

    def to_json(self):
        return dict(src=self.src, inputs=[[c, v] for c, v in self.inputs], bl=self.bl, res=self.res, tags=self.tags)

    @staticmethod
    def from_json(d):
        return Prog(d["src"], [tuple(x) for x in d["inputs"]], d["bl"], d["res"], d.get("tags", ()))


def compile_chunks(src, filename=GEN_FILENAME):
    tree = ast.parse(src)
    out = []
    for node in tree.body:
        m = ast.Module([node], [])
        out.append((node, compile(m, filename, "exec")))
    return out


class Outcome:
    def __init__(self):
        self.ns = None
        self.exc = None          # exception instance or None
        self.stmt = None         # index of the top-level statement that raised
        self.snap = None
        self.flags = []
        self.pub = []
        self.done = 0            # number of top-level statements completed


def run_chunks(chunks, ns, between=None):
    out = Outcome()
    out.ns = ns
    for n, (node, code) in enumerate(chunks):
        try:
            exec(code, ns)
        except BaseException as e:  # noqa - SystemExit etc. are findings too
            if isinstance(e, (KeyboardInterrupt,)):
                raise
            out.exc = e
            out.stmt = n
            break
        out.done = n + 1
        if between is not None:
            between(n, node, ns)
    return out


class _Call:
    """a lazily evaluated branch that is neither a function nor a lambda: an object with __call__"""

    def __init__(self, v):
        self.v = v

    def __call__(self):
        return self.v


def _loop_sum(n, mx):
    """a helper as a user would write it: 1 + 2 + .. + n by an oblivious for loop over a secret bound, with the stop <= max check on"""
    from pysnark.branching import BranchingValues, _range, _endfor
    __ = BranchingValues()
    __.s = n * 0
    for i in _range(n, max=mx, checkstopmax=True, ctx=__):
        __.s = __.s + i + 1
    _endfor(ctx=__)
    return __.s


def api_names():
    import pysnark.runtime as rt
    import pysnark.boolean as bo
    import pysnark.fixedpoint as fx
    import pysnark.branching as br
    import pysnark.array as ar
    import pysnark.linalg as la
    import pysnark.pack as pk
    try:
        import pysnark.poseidon_hash as ph
        hashes = dict(poseidon_hash=ph.poseidon_hash)
    except NotImplementedError:
        hashes = {}          # the selected backend has no registered Poseidon parameters (snarkjs, qaptools)
    def set_bitlength(n):
        rt.bitlength = n
        from vf import boot
        if boot.Neutral.current is not None and boot.Neutral.current.expect is not None:
            boot.Neutral.current.expect = (n, boot.Neutral.current.expect[1])      # the program's own, legitimate change
    import functools
    return dict(snark=rt.snark, set_bitlength=set_bitlength, _loop_sum=_loop_sum, _aug=model._aug, functools=functools, _Call=_Call, if_guard=rt.if_guard, igprint=rt.igprint, **hashes, PackBool=pk.PackBool, PackIntMod=pk.PackIntMod, PackList=pk.PackList, PackRepeat=pk.PackRepeat,
                PrivVal=rt.PrivVal, PubVal=rt.PubVal, ConstVal=rt.ConstVal, LinComb=rt.LinComb,
                guarded=rt.guarded, PrivValBool=bo.PrivValBool, PubValBool=bo.PubValBool, LinCombBool=bo.LinCombBool,
                PrivValFxp=fx.PrivValFxp, PubValFxp=fx.PubValFxp, LinCombFxp=fx.LinCombFxp,
                if_then_else=br.if_then_else, Array=ar.Array, lin_comb=la.lin_comb, scalar_mul=la.scalar_mul, vector_sub=la.vector_sub,
                BranchingValues=br.BranchingValues, _if=br._if, _elif=br._elif, _else=br._else, _endif=br._endif,
                _while=br._while, _endwhile=br._endwhile, _breakif=br._breakif, _range=br._range, _endfor=br._endfor)


def cleanup_api_ns(ns):
    """empty the stacks of BranchingValues left open by an aborted program (their __del__ raises otherwise)"""
    import pysnark.branching as br
    for v in list(ns.values()):
        if isinstance(v, br.BranchingValues):
            try:
                del v.stack[:]
            except Exception:
                pass


def run_api(prog, inputs, neutral, modulus=None, ignore=False, between=None, chunks=None, pre=None, toggle=False):
    """Execute on the real API. `neutral` is a boot.Neutral instance.
    toggle: error checks are switched off and on again through the public setter before the program starts"""
    from vf import recorder
    import pysnark.runtime as rt
    neutral(bitlength=prog.bl, resolution=prog.res, modulus=modulus)
    ns = api_names()
    ns["I"] = list(inputs)
    if toggle:
        rt.ignore_errors(True)
        rt.ignore_errors(False)
    if ignore:
        rt.ignore_errors(True)
    if pre is not None:
        pre(ns)
    out = run_chunks(chunks or compile_chunks(prog.src), ns, between)
    out.snap = recorder.snapshot()
    out.state_after = (rt.guard, rt._ignore_errors, rt.LinComb.ONE is rt.LinComb.ONE_SAFE)
    cleanup_api_ns(ns)
    rt.guard = None
    rt._ignore_errors = False
    rt.LinComb.ONE = rt.LinComb.ONE_SAFE
    return out


def run_ref(prog, inputs, strict=False, always_guard=False, chunks=None, extra=None, p=None):
    model.reset(prog.bl, prog.res, strict, p)
    ns = dict(model.NAMES)
    if always_guard:
        ns["guarded"] = lambda cond: (lambda fn: fn)
    if extra:
        ns.update(extra)
    ns["I"] = list(inputs)
    out = run_chunks(chunks or compile_chunks(prog.src), ns)
    out.flags = list(model.ctx.flags)
    out.pub = list(model.ctx.pub)
    return out


# --------------------------------------------------------------------------------------------------------
# generator

INT_T = [
    # id, result type, template.  Slots: {i} int var, {b} bool var, {f} fxp var, {k} positive const,
    # {K} any const, {s} shift const, {e} small exponent, {c} float const, {w} width
    ("add_ss", "i", "{i} + {i}"), ("add_sc", "i", "{i} + {K}"), ("add_cs", "i", "{K} + {i}"),
    ("sub_ss", "i", "{i} - {i}"), ("sub_sc", "i", "{i} - {K}"), ("sub_cs", "i", "{K} - {i}"),
    ("mul_ss", "i", "{i} * {i}"), ("mul_sc", "i", "{i} * {K}"), ("mul_cs", "i", "{K} * {i}"),
    ("neg", "i", "-{i}"), ("pos", "i", "+{i}"), ("abs", "i", "abs({i})"), ("alias", "i", "{i}"),
    ("aug_alias_add", "i", "_aug({i}, {i}, '+')[1]"), ("aug_alias_mulc", "i", "_aug({i}, {k}, '*')[1]"), ("aug_alias_sub", "i", "_aug({i}, {K}, '-')[1]"),
    ("aug_alias_shl", "i", "_aug({i}, {s}, '<<')[1]"), ("aug_alias_res", "i", "_aug({i}, {i}, '-')[0]"),
    ("truediv_ss", "i", "{i} / {i}"), ("truediv_sc", "i", "{i} / {k}"), ("truediv_cs", "i", "{K} / {i}"), ("truediv_sN", "i", "{i} / {N}"),
    ("floordiv_sN", "i", "{i} // {N}"), ("mod_sN", "i", "{i} % {N}"),
    ("floordiv_ss", "i", "{i} // {i}"), ("floordiv_sc", "i", "{i} // {k}"), ("floordiv_cs", "i", "{K} // {i}"),
    ("mod_ss", "i", "{i} % {i}"), ("mod_sc", "i", "{i} % {k}"), ("mod_cs", "i", "{K} % {i}"),
    ("divmod_ss", "i", "divmod({i}, {i})[0] + divmod({i}, {k})[1]"),
    ("rdivmod_q", "i", "divmod({k}, {i})[0]"), ("rdivmod_r", "i", "divmod({k}, {i})[1]"), ("divmod_q", "i", "divmod({i}, {i})[0]"), ("divmod_r", "i", "divmod({i}, {k})[1]"),
    ("pow_sc", "i", "{i} ** {e}"), ("pow_ss", "i", "{i} ** {i}"), ("pow_cs", "i", "{k} ** {i}"),
    ("lshift_sc", "i", "{i} << {s}"), ("lshift_ss", "i", "{i} << {i}"), ("lshift_cs", "i", "{k} << {i}"),
    ("rshift_sc", "i", "{i} >> {s}"), ("rshift_ss", "i", "{i} >> {i}"), ("rshift_cs", "i", "{k} >> {i}"),
    ("and_ss", "i", "{i} & {i}"), ("and_sc", "i", "{i} & {k}"), ("and_cs", "i", "{k} & {i}"),
    ("or_ss", "i", "{i} | {i}"), ("or_sc", "i", "{i} | {k}"), ("or_cs", "i", "{k} | {i}"),
    ("xor_ss", "i", "{i} ^ {i}"), ("xor_sc", "i", "{i} ^ {k}"), ("xor_cs", "i", "{k} ^ {i}"),
    ("invert", "i", "~{i}"),
    ("lt_ss", "b", "{i} < {i}"), ("lt_sc", "b", "{i} < {K}"), ("lt_cs", "b", "{K} < {i}"),
    ("le_ss", "b", "{i} <= {i}"), ("le_sc", "b", "{i} <= {K}"), ("le_cs", "b", "{K} <= {i}"),
    ("gt_ss", "b", "{i} > {i}"), ("gt_sc", "b", "{i} > {K}"), ("gt_cs", "b", "{K} > {i}"),
    ("ge_ss", "b", "{i} >= {i}"), ("ge_sc", "b", "{i} >= {K}"), ("ge_cs", "b", "{K} >= {i}"),
    ("eq_ss", "b", "{i} == {i}"), ("eq_sc", "b", "{i} == {K}"), ("eq_cs", "b", "{K} == {i}"),
    ("ne_ss", "b", "{i} != {i}"), ("ne_sc", "b", "{i} != {K}"), ("ne_cs", "b", "{K} != {i}"),
    ("check_zero", "b", "{i}.check_zero()"), ("check_nonzero", "b", "{i}.check_nonzero()"),
    ("check_positive", "b", "{i}.check_positive()"), ("check_positive_w", "b", "{i}.check_positive({w})"),
    ("lc_if_else_cc", "i", "({b} + 0).if_else({K}, {K})"), ("lc_if_else_ic", "i", "({b} + 0).if_else({i}, {K})"), ("lc_if_else_ci", "i", "({b} * 1).if_else({K}, {i})"), ("lc_if_else_sel_ii", "i", "{i}.if_else({i}, {i})"), ("lc_if_else_sel_bi", "i", "{i}.if_else({b}, {i})"), ("lc_if_else_sel_same", "i", "(lambda _t: _t.if_else(_t, {i}))({i})"),
    ("ite_i", "i", "if_then_else({b}, {i}, {i})"), ("ite_intcond", "i", "if_then_else({z}, {i}, {i}) + 0"),
    ("ite_list", "i", "if_then_else({b}, [{i}, {i}], [{i}, {K}])[1] + 0"), ("linalg_sub", "i", "sum(vector_sub(scalar_mul({i}, [{i}, {K}]), [{i}, {i}]))"),
    ("lin_comb", "i", "lin_comb([{i}, {K}, {b}], [{i}, {i}, {i}])"), ("ite_ic", "i", "if_then_else({b}, {i}, {K})"),
    ("ite_ci", "i", "if_then_else({b}, {K}, {i})"),
    ("if_else_b", "i", "{b}.if_else({i}, {i})"), ("if_else_i", "i", "LinCombBool({b} + 0).if_else({i}, {K})"),
    ("bits_rt", "i", "LinComb.from_bits({i}.to_bits())"),
    ("bits_w", "i", "LinComb.from_bits({i}.to_bits({w}))"),
    ("bit0", "b", "{i}.to_bits()[0]"), ("from_bits_any", "i", "LinComb.from_bits([{i}, {i}, {b}, {i}])"),
    ("from_bits_mixed", "i", "LinComb.from_bits([{b}, {i} * {i}, {K}])"),
    ("from_bits_iter", "i", "LinComb.from_bits(iter([{i}, {b}, {i}]))"), ("from_bits_gen", "i", "LinComb.from_bits(t for t in ({b}, {i}, {b}, {K}))"),
    ("from_bits_tuple", "i", "LinComb.from_bits(({i}, {b}))"), ("from_bits_map", "i", "LinComb.from_bits(map(lambda t: t * 1, [{i}, {i}]))"),
    ("tobool", "b", "LinCombBool({b} * {b})"), ("tobool_i", "b", "LinCombBool({i})"),
    ("if_else_conv", "i", "LinCombBool({i}).if_else({i}, {i})"), ("if_else_conv_c", "i", "LinCombBool({i}).if_else({K}, {i})"),
]
BOOL_T = [
    ("band_ss", "b", "{b} & {b}"), ("band_sc", "b", "{b} & {B}"), ("band_cs", "b", "{B} & {b}"),
    ("bor_ss", "b", "{b} | {b}"), ("bor_sc", "b", "{b} | {B}"), ("bor_cs", "b", "{B} | {b}"),
    ("bxor_ss", "b", "{b} ^ {b}"), ("bxor_sc", "b", "{b} ^ {B}"), ("bxor_cs", "b", "{B} ^ {b}"),
    ("bnot", "b", "~{b}"), ("bpos", "b", "+{b}"), ("balias", "b", "{b}"), ("baug_alias_and", "b", "_aug({b}, {b}, '&')[1]"), ("baug_alias_xor", "b", "_aug({b}, {B}, '^')[1]"), ("babs", "i", "abs({b})"), ("babs_conv", "i", "abs(LinCombBool({i}))"), ("bneg_conv", "i", "-LinCombBool({i}) + 1"), ("bmul_conv", "i", "LinCombBool({i}) * {i}"), ("bifelse", "i", "{b}.if_else({i}, {K})"),
    ("badd", "i", "{b} + {b}"), ("badd_i", "i", "{b} + {i}"), ("bsub", "i", "{b} - {i}"), ("brsub", "i", "{K} - {b}"),
    ("bmul", "i", "{b} * {i}"), ("bmul_b", "i", "{b} * {b}"), ("bneg", "i", "-{b}"),
    ("beq", "b", "{b} == {b}"), ("bne", "b", "{b} != {b}"), ("blt", "b", "{b} < {b}"), ("bge", "b", "{b} >= {B}"),
    ("bpow", "b", "{b} ** {k}"), ("beq_K", "b", "{b} == {K}"), ("blt_K", "b", "{b} < {K}"), ("bne_Kr", "b", "{K} != {b}"),
    ("bge_Kr", "b", "{K} >= {b}"),
    ("bgt_sB", "b", "{b} > {B}"), ("bge_sB", "b", "{b} >= {B}"), ("blt_sB", "b", "{b} < {B}"), ("ble_sB", "b", "{b} <= {B}"),
    ("bgt_Bs", "b", "{B} > {b}"), ("bge_Bs", "b", "{B} >= {b}"), ("blt_Bs", "b", "{B} < {b}"), ("ble_Bs", "b", "{B} <= {b}"),
    ("lt_ib", "b", "{i} < {b}"), ("gt_ib", "b", "{i} > {b}"), ("le_ib", "b", "{i} <= {b}"), ("ge_ib", "b", "{i} >= {b}"),
    ("lt_bi", "b", "{b} < {i}"), ("ge_bi", "b", "{b} >= {i}"), ("eq_ib", "b", "{i} == {b}"), ("ne_ib", "b", "{i} != {b}"),
    ("ite_b", "i", "if_then_else({b}, {b}, {b})"), ("ite_bi", "i", "if_then_else({b}, {b}, {i})"), ("ite_ib", "i", "if_then_else({b}, {i}, {b})"),
    ("ite_bK", "i", "if_then_else({b}, {b}, {K})"), ("ite_cmp_i", "i", "if_then_else({b}, {i} < {i}, {i})"),
    ("int_and_bool", "b", "{b} & ({b} + 0)"),
]
FXP_T = [
    ("fadd_ff", "f", "{f} + {f}"), ("fadd_fi", "f", "{f} + {i}"), ("fadd_if", "f", "{i} + {f}"),
    ("fadd_fc", "f", "{f} + {c}"), ("fadd_cf", "f", "{c} + {f}"), ("fadd_fK", "f", "{f} + {K}"),
    ("fadd_fb", "f", "{f} + {b}"), ("fadd_bf", "f", "{b} + {f}"),
    ("fsub_ff", "f", "{f} - {f}"), ("fsub_fi", "f", "{f} - {i}"), ("fsub_if", "f", "{i} - {f}"),
    ("fsub_cf", "f", "{c} - {f}"), ("fsub_Kf", "f", "{K} - {f}"),
    ("fneg", "f", "-{f}"), ("fabs", "f", "abs({f})"), ("falias", "f", "{f}"), ("faug_alias_add", "f", "_aug({f}, {f}, '+')[1]"), ("faug_alias_sub", "f", "_aug({f}, {i}, '-')[1]"),
    ("faug_alias_mul", "f", "_aug({f}, {k}, '*')[1]"), ("faug_alias_res", "f", "_aug({f}, {c}, '+')[0]"),
    ("fmul_ff", "f", "{f} * {f}"), ("fmul_fi", "f", "{f} * {i}"), ("fmul_if", "f", "{i} * {f}"),
    ("fmul_fc", "f", "{f} * {c}"), ("fmul_cf", "f", "{c} * {f}"), ("fmul_fK", "f", "{f} * {K}"),
    ("fmul_bf", "f", "{b} * {f}"),
    ("fdiv_ff", "f", "{f} / {f}"), ("fdiv_fi", "f", "{f} / {i}"), ("fdiv_fk", "f", "{f} / {k}"),
    ("fdiv_fc", "f", "{f} / {c}"), ("fdiv_cf", "f", "{c} / {f}"), ("fdiv_Kf", "f", "{k} / {f}"),
    ("ffloordiv_ff", "f", "{f} // {f}"), ("ffloordiv_fk", "f", "{f} // {k}"), ("ffloordiv_cf", "f", "{c} // {f}"),
    ("fmod_ff", "f", "{f} % {f}"), ("fmod_fk", "f", "{f} % {k}"), ("fmod_cf", "f", "{c} % {f}"),
    ("fpow", "f", "{f} ** {e}"),
    ("flt_ff", "b", "{f} < {f}"), ("flt_fi", "b", "{f} < {i}"), ("flt_fc", "b", "{f} < {c}"),
    ("fle_ff", "b", "{f} <= {f}"), ("fgt_ff", "b", "{f} > {f}"), ("fge_fK", "b", "{f} >= {K}"),
    ("fge_if", "b", "{i} >= {f}"), ("fle_if", "b", "{i} <= {f}"),
    ("feq_ff", "b", "{f} == {f}"), ("fne_fc", "b", "{f} != {c}"),
    ("fconv", "f", "LinCombFxp({i})"),
    ("ite_f", "f", "if_then_else({b}, {f}, {f})"), ("ite_fi", "f", "if_then_else({b}, {f}, {i})"),
    ("ite_if", "f", "if_then_else({b}, {i}, {f})"),
    # the same wire read twice, once as an integer and once as a raw fixed-point representation
    ("ite_rawf_i", "f", "(lambda _t: if_then_else({b}, LinCombFxp(_t, False), _t))({i})"),
    ("ite_i_rawf", "f", "(lambda _t: if_then_else({b}, _t, LinCombFxp(_t, False)))({i})"),
    ("fcheck_pos", "b", "{f}.check_positive()"), ("fcheck_zero", "b", "{f}.check_zero()"),
]
ASSERT_T = [
    ("assert_lt", None, "{i}.assert_lt({i})"), ("assert_lt_c", None, "{i}.assert_lt({K})"),
    ("assert_le", None, "{i}.assert_le({i})"), ("assert_gt", None, "{i}.assert_gt({i})"),
    ("assert_ge", None, "{i}.assert_ge({K})"), ("assert_eq", None, "{i}.assert_eq({i})"),
    ("assert_eq_c", None, "{i}.assert_eq({K})"), ("assert_ne", None, "{i}.assert_ne({i})"),
    ("assert_zero", None, "({i} - {i}).assert_zero()"), ("assert_nonzero", None, "{i}.assert_nonzero()"),
    ("assert_positive", None, "{i}.assert_positive()"), ("assert_positive_w", None, "{i}.assert_positive({w})"),
    ("assert_range", None, "{i}.assert_range({K}, {K})"), ("assert_range_ss", None, "{i}.assert_range({i}, {i})"),
    ("assert_range_sc", None, "{i}.assert_range({i} - {k}, {i} + {k})"),
    ("fassert_range_ff", None, "{f}.assert_range({f}, {f})"), ("fassert_range_cf", None, "{f}.assert_range({c}, {f} + {k})"),
    ("fassert_range_fi", None, "{f}.assert_range({f} - {k}, {i})"),
    ("bassert_eq", None, "{b}.assert_eq({b})"), ("bassert_ne", None, "{b}.assert_ne({B})"),
    ("fassert_lt", None, "{f}.assert_lt({f})"), ("fassert_ge", None, "{f}.assert_ge({c})"),
    ("fassert_eq", None, "{f}.assert_eq({f})"),
    # formatting / printing a secret (igprint prints in live code only) never touches the circuit
    ("igprint_f", None, "igprint({f})"), ("igprint_i", None, "igprint({i}, {b})"), ("repr_f", None, "repr({f}) + str({i})"),
    ("format_b", None, "'%s %r' % ({b}, {f})"),
    ("val_i", None, "{i}.val()"), ("val_b", None, "{b}.val()"), ("val_f", None, "{f}.val()"),
    ("val_conv", None, "LinCombBool({i}).val()"), ("val_conv_not", None, "(~LinCombBool({i})).val()"), ("val_conv_and", None, "(LinCombBool({i}) & {b}).val()"),
]
ARRAY_T = [
    ("arr_new", "a", "Array([{i}, {i}, {i}])"), ("arr_new_c", "a", "Array([{K}, {i}, {K}, {K}])"),
    ("arr_new2", "a", "Array([{i}, {K}])"),
    ("arr_get", "i", "{a}[{i}] + 0"), ("arr_get_c", "i", "{a}[{z}] + 0"),
    ("arr_set", None, "{a}[{i}] = {i}"), ("arr_set_c", None, "{a}[{i}] = {K}"), ("arr_set_k", None, "{a}[{z}] = {i}"),
]

SNARK_T = [
    # @snark-wrapped calls on plain inputs ({J} = an int input I[k], {F} = a float input I[k]); results are plain values
    ("snark_if", None, "snark(lambda u, w: u * w + w)({J}, {F})"), ("snark_ff", None, "snark(lambda u, w: [u + w, (u - w) * 3])({F}, {F})"),
    ("snark_struct", None, "snark(lambda s: {'a': s[0] * 2, 'b': s[1][0] + s[0]})([{F}, ({J}, 'tag')])"),
    ("snark_cmp", None, "snark(lambda u, w: u < w)({F}, {J})"),
]

TOP_T = [
    # statements generated at the top level only (they rebind an existing name / change a global setting)
    ("iadd", None, "{i} += {i}"), ("isub_c", None, "{i} -= {K}"), ("imul", None, "{i} *= {i}"), ("imul_c", None, "{i} *= {k}"),
    ("ifloordiv", None, "{i} //= {k}"), ("imod", None, "{i} %= {k}"), ("ilshift", None, "{i} <<= {s}"), ("irshift", None, "{i} >>= {s}"),
    ("iand", None, "{i} &= {i}"), ("ior_c", None, "{i} |= {k}"), ("ixor", None, "{i} ^= {i}"), ("ipow", None, "{i} **= {e}"),
    ("band_i", None, "{b} &= {b}"), ("bor_i", None, "{b} |= {B}"), ("bxor_i", None, "{b} ^= {b}"),
    ("fadd_i", None, "{f} += {f}"), ("fmul_i", None, "{f} *= {k}"), ("fsub_i", None, "{f} -= {i}"), ("fdiv_i", None, "{f} /= {k}"),
    ("set_bitlength", None, "set_bitlength({L})"),
]

HASH_T = [
    ("poseidon2", "i", "poseidon_hash([{i}, {i}])[0]"), ("poseidon5", "i", "poseidon_hash([{i}, {i}, {b}, {i}, {i}])[1] * 0 + {i}"),
    ("poseidon_chain", "i", "poseidon_hash(poseidon_hash([{i}]))[3]"), ("poseidon_eq", "b", "poseidon_hash([{i}])[0] == poseidon_hash([{i}])[0]"),
]

TEMPLATE_SETS = dict(int=INT_T, bool=BOOL_T, fxp=FXP_T, assert_=ASSERT_T, array=ARRAY_T, hash=HASH_T, snark=SNARK_T, top=TOP_T)
TOP_ONLY = {t[0] for t in TOP_T}
ALL_TEMPLATES = {t[0]: t for ts in TEMPLATE_SETS.values() for t in ts}


class Gen:
    def __init__(self, rnd, bl=None, res=None, features=("int", "bool", "assert_", "guard")):
        self.rnd = rnd
        self.bl = bl if bl is not None else rnd.choice([4, 6, 8, 12, 16, 24, 32] * 4 + [2, 3, 60, 128, 250])
        self.res = res if res is not None else rnd.choice([0, 1, 2, 4, 8])
        if self.res > self.bl - 2:
            self.res = max(0, self.bl - 3)
        self.features = tuple(features)
        self.templates = []
        for f in self.features:
            self.templates.extend(TEMPLATE_SETS.get(f, []))
        self.nvar = 0

    # ---- values ------------------------------------------------------------------------------------
    def small(self):
        lim = (1 << (self.bl - 1)) - 1
        r = self.rnd
        c = r.random()
        if c < 0.5:
            return r.randint(-min(lim, 9), min(lim, 9))
        if c < 0.8:
            m = max(1, int(lim ** 0.5))
            return r.randint(-m, m)
        if c < 0.9:
            return r.choice([lim, -lim, lim - 1, 0, 1, -1])
        return r.randint(-lim, lim)

    def fresh(self, prefix="v"):
        self.nvar += 1
        return "%s%d" % (prefix, self.nvar)

    def const(self, slot):
        r = self.rnd
        if slot == "k":
            return str(r.choice([1, 2, 3, 4, 5, 7, 8]))
        if slot == "K":
            return str(r.choice([0, 1, -1, 2, -2, 3, 5, -7, 10]))
        if slot == "N":
            return str(r.choice([-1, -2, -3, -4, -6, 2, 3]))
        if slot == "B":
            return r.choice(["0", "1", "True", "False"])
        if slot == "s":
            return str(r.randint(0, max(0, min(self.bl - 2, 6))))
        if slot == "e":
            return str(r.randint(0, 3))
        if slot == "w":
            return str(r.choice([1, 2, 3, self.bl - 1, self.bl, self.bl + 1, self.bl + 3]))
        if slot == "c":
            q = r.randint(-3 << self.res, 3 << self.res)
            return repr(q / (1 << self.res))
        if slot == "z":
            return str(r.randint(0, 1))
        if slot == "L":
            return str(r.choice([self.bl + 4, self.bl + 8, 2 * self.bl, max(3, self.bl - 2)]))
        if slot in ("J", "F"):
            want = ("PrivVal", "PubVal") if slot == "J" else ("PrivValFxp", "PubValFxp")
            ks = [k for k, (c, _) in enumerate(self.inputs_now) if c in want]
            if not ks:
                raise KeyError(slot)
            return "I[%d]" % r.choice(ks)
        raise KeyError(slot)

    # ---- program -----------------------------------------------------------------------------------
    def program(self, nstmts=8, ninputs=None):
        rnd = self.rnd
        inputs, lines, tags = [], [], []
        pools = {"i": [], "b": [], "f": [], "a": []}
        ninputs = ninputs or rnd.randint(2, 5)
        ctors = [("PrivVal", "i"), ("PrivVal", "i"), ("PubVal", "i")]
        if "bool" in self.features or "guard" in self.features:
            ctors += [("PrivValBool", "b"), ("PubValBool", "b")]
        if "fxp" in self.features:
            ctors += [("PrivValFxp", "f"), ("PrivValFxp", "f"), ("PubValFxp", "f")]
        want = [("PrivVal", "i"), ("PrivVal", "i")]
        if "fxp" in self.features:
            want.append(("PrivValFxp", "f"))
        if "bool" in self.features or "guard" in self.features:
            want.append(("PrivValBool", "b"))
        while len(want) < ninputs:
            want.append(rnd.choice(ctors))
        for n, (ctor, ty) in enumerate(want):
            if ty == "i":
                v = self.small()
            elif ty == "b":
                v = rnd.randint(0, 1)
            else:
                v = rnd.randint(-4 << self.res, 4 << self.res) / (1 << self.res)
            name = "x%d" % n
            inputs.append((ctor, v))
            lines.append("%s = %s(I[%d])" % (name, ctor, n))
            pools[ty].append(name)
        self.inputs_now = inputs
        prog = Prog("\n".join(lines), inputs, self.bl, self.res)
        # shadow namespace (strict domain, guards always entered) used to steer generation
        model.reset(self.bl, self.res, strict=True)
        sh = dict(model.NAMES)
        sh["guarded"] = lambda cond: (lambda fn: fn)
        sh["I"] = prog.primary()
        exec(compile(prog.src, GEN_FILENAME, "exec"), sh)
        body = self._block(sh, pools, nstmts, tags, depth=0)
        prog.src = "\n".join(lines + body) + "\n"
        prog.tags = tags
        return prog

    def _fill(self, tmpl, pools):
        out = []
        i = 0
        while i < len(tmpl):
            ch = tmpl[i]
            if ch == "{":
                j = tmpl.index("}", i)
                slot = tmpl[i + 1:j]
                if slot in pools:
                    if not pools[slot]:
                        return None
                    out.append(self.rnd.choice(pools[slot]))
                else:
                    try:
                        out.append(self.const(slot))
                    except KeyError:
                        return None
                i = j + 1
            else:
                out.append(ch)
                i += 1
        return "".join(out)

    def _try(self, sh, stmt):
        model.ctx.flags = []
        model.ctx.strict = True
        try:
            exec(compile(stmt, GEN_FILENAME, "exec"), sh)
            return True
        except (model.OutOfDomain, model.MustRaise, model.ModelGap, TypeError, ZeroDivisionError, OverflowError, ValueError,
                IndexError, AttributeError):
            return False

    def _block(self, sh, pools, nstmts, tags, depth):
        rnd = self.rnd
        lines = []
        attempts = 0
        made = 0
        while made < nstmts and attempts < nstmts * 12:
            attempts += 1
            if "guard" in self.features and depth < 3 and pools["b"] and rnd.random() < (0.18 if depth == 0 else 0.12):
                blk = self._guard_block(sh, pools, tags, depth)
                if blk:
                    lines.extend(blk)
                    made += 1
                continue
            tid, rty, tmpl = rnd.choice(self.templates)
            if tid in TOP_ONLY and depth > 0:
                continue
            if tid == "set_bitlength" and rnd.random() < 0.7:
                continue
            expr = self._fill(tmpl, pools)
            if expr is None:
                continue
            if rty is None:
                stmt = expr
                name = None
            else:
                name = self.fresh()
                stmt = "%s = %s" % (name, expr)
            if not self._try(sh, stmt):
                continue
            if name is not None:
                v = sh.get(name)
                ok = {"i": model.RInt, "b": model.RBool, "f": model.RFxp, "a": model.RArray}[rty]
                if not isinstance(v, ok):
                    sh.pop(name, None)
                    continue
                # keep integer values small enough to stay useful downstream
                if rty == "i" and abs(v.v) >= 1 << (self.bl + 2):
                    if rnd.random() < 0.8:
                        sh.pop(name, None)
                        continue
                if rty == "f" and abs(v.r) >= 1 << (self.bl + 2):
                    if rnd.random() < 0.8:
                        sh.pop(name, None)
                        continue
                pools[rty].append(name)
            lines.append(stmt)
            tags.append(tid)
            made += 1
        return lines

    def _guard_block(self, sh, pools, tags, depth):
        rnd = self.rnd
        cond = rnd.choice(pools["b"])
        inner_pools = {k: list(v) for k, v in pools.items()}
        inner_pools["a"] = []   # array writes under a guard are not value-transparent
        n = self.nvar
        body = self._block(sh, inner_pools, rnd.randint(1, 4), tags, depth + 1)
        new_i = [v for v in inner_pools["i"] if v not in pools["i"]]
        new_f = [v for v in inner_pools["f"] if v not in pools["f"]]
        if not body:
            return None
        lazy = rnd.random() < 0.4
        gid = self.fresh("g")
        out = []
        if new_i and pools["i"]:
            ret, alt, ty = rnd.choice(new_i), rnd.choice(pools["i"]), "i"
        elif new_f and pools["f"]:
            ret, alt, ty = rnd.choice(new_f), rnd.choice(pools["f"]), "f"
        else:
            ret, alt, ty = None, None, None
        if lazy and ret is not None:
            res = self.fresh()
            out.append("def _t_%s():" % gid)
            out.extend("    " + ln for b in body for ln in b.split("\n"))
            out.append("    return %s" % ret)
            if rnd.random() < 0.5:
                out.append("%s = if_then_else(%s, _t_%s, lambda: %s)" % (res, cond, gid, alt))
                tags.append("lazy_ite")
            else:
                # the body is the callable *else* branch: it runs live when the condition is false
                out.append("%s = if_then_else(~%s, lambda: %s, _t_%s)" % (res, cond, alt, gid))
                out.append("%s = %s + 0" % (res, res))
                tags.append("lazy_ite_else")
                if not self._try(sh, "%s = if_then_else(%s, %s, %s)" % (res, cond, ret, alt)):
                    return None
                pools[ty].append(res)
                return out
        else:
            out.append("@guarded(%s)" % cond)
            out.append("def _g_%s():" % gid)
            out.extend("    " + ln for b in body for ln in b.split("\n"))
            out.append("    return %s" % (ret if ret is not None else "None"))
            out.append("%s = _g_%s()" % (gid, gid))
            tags.append("guarded")
            if ret is not None:
                res = self.fresh()
                out.append("%s = if_then_else(%s, %s, %s)" % (res, cond, gid, alt))
        if ret is not None:
            # shadow value of the selected result
            if not self._try(sh, "%s = if_then_else(%s, %s, %s)" % (res, cond, ret, alt)):
                return None
            pools[ty].append(res)
        return out


def mutate_inputs(prog, rnd, mode="valid", p=None):
    """another input vector for the same program. mode: valid (same classes), wild (any), boundary"""
    lim = (1 << (prog.bl - 1)) - 1
    out = []
    for ctor, v in prog.inputs:
        if ctor in ("PrivVal", "PubVal"):
            if mode == "valid":
                c = rnd.random()
                if c < 0.5:
                    nv = rnd.randint(-min(lim, 9), min(lim, 9))
                elif c < 0.7:
                    nv = v + rnd.choice([-1, 1])
                else:
                    m = max(1, int(lim ** 0.5))
                    nv = rnd.randint(-m, m)
            elif mode == "boundary":
                nv = rnd.choice([lim, -lim, lim + 1, -lim - 1, (1 << prog.bl) - 1, 1 << prog.bl, -(1 << prog.bl), 0])
            else:
                nv = rnd.choice([rnd.randint(-4 * lim - 4, 4 * lim + 4), rnd.randint(-(1 << 70), 1 << 70), 0] +
                                ([p, -p, 2 * p, p + rnd.randint(-3, 3)] if p else []))
            out.append(nv)
        elif ctor in ("PrivValBool", "PubValBool"):
            out.append(rnd.randint(0, 1))          # the constructors refuse anything else in every mode
        else:
            if mode == "valid":
                out.append(float(rnd.randint(-4, 4)) if rnd.random() < 0.3 else rnd.randint(-4 << prog.res, 4 << prog.res) / (1 << prog.res))
            else:
                out.append(rnd.randint(-(1 << (prog.bl + 1)), 1 << (prog.bl + 1)) / (1 << prog.res))
    return out
