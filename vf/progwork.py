"""Generated-program workload shared by C01 (completeness), C04 (value = wire), C06 (value independence)
and the composition half of C05 / C14 (differential against the reference twin).

One worker = one fresh interpreter with the recording backend attached.  It returns one partial Run per
property; each check keeps only its own.
"""
import hashlib
import random
import re

from vf import boot, common, r1cs


FEATURE_MIXES = [
    ("int", "bool", "assert_", "guard", "top"),
    ("int", "bool", "fxp", "top"),
    ("int", "bool", "assert_", "guard"),
    ("int", "bool", "fxp", "assert_", "guard"),
    ("int", "bool", "fxp", "assert_", "guard", "array"),
    ("int", "bool", "array", "guard"),
    ("int", "bool", "assert_"),
    ("int", "fxp", "bool", "assert_"),
    ("int", "bool", "hash", "guard"),
    ("int", "fxp", "bool", "snark"),
]

RULES = {
    "C01": "generated programs (typed op grammar incl. guards, lazy branches, arrays, fixed point) x input vectors; "
           "a case = one completed run with error checks on; non-trivial = it emitted >=1 constraint; distinct by "
           "hash(source, inputs); cell = op template id observed in a completed run",
    "C04": "same programs, additionally run in ignore-errors mode with out-of-domain inputs and runs that raise midway; "
           "a case = one run; non-trivial = >=1 LinComb constructed and judged; cell = op template x mode",
    "C06": "each program run on several input vectors (valid, boundary, wild) with checks on and off; a case = one "
           "pair (reference run, other completed run) whose canonical traces are compared; non-trivial = both emitted "
           ">=1 constraint and the input vectors differ; cell = op template x pair kind",
    "C05": "composition half: every named integer/boolean variable of a completed run is compared with the native twin",
    "C14": "composition half: every named fixed-point variable of a completed run is compared with the Fraction twin",
}
LEVEL = {"C01": "exploration", "C04": "exploration", "C06": "exploration", "C05": "exploration", "C14": "exploration"}


def _hash(*parts):
    return int(hashlib.sha1(repr(parts).encode()).hexdigest()[:12], 16)


def stmt_tag_map(prog):
    """map top-level statement index -> source text (for witnesses)"""
    from vf.gen import prog as G
    import ast
    tree = ast.parse(prog.src)
    lines = prog.src.split("\n")
    out = []
    for node in tree.body:
        out.append("\n".join(lines[node.lineno - 1:node.end_lineno]))
    return out


def api_number(o, res):
    """represented number of an API object, and its kind"""
    from fractions import Fraction
    import pysnark.runtime as rt
    import pysnark.boolean as bo
    import pysnark.fixedpoint as fx
    if isinstance(o, fx.LinCombFxp):
        return "fxp", Fraction(o.lc.value, 1 << res)
    if isinstance(o, bo.LinCombBool):
        return "bool", Fraction(o.lc.value)
    if isinstance(o, rt.LinComb):
        return "int", Fraction(o.value)
    return None, None


def lc_of(o):
    import pysnark.runtime as rt
    if isinstance(o, rt.LinComb):
        return o.lc
    inner = getattr(o, "lc", None)
    if isinstance(inner, rt.LinComb):
        return inner.lc
    return None


def explore(job):
    from vf.gen import prog as G
    from vf.ref import model
    from vf import recorder, contracts
    props = set(job["props"])
    rt = boot.attach()
    neutral = boot.Neutral()
    if "C04" in props:
        contracts.install_lincomb_contract()
        contracts.install_val_contracts()
    contracts.State.track = "C04" in props
    runs = {p: common.Run(p, LEVEL[p], RULES[p]) for p in props}
    moduli = [recorder.BN254, recorder.BLS381, recorder.C25519]
    for n in range(job["nprogs"]):
        rnd = random.Random("%s/%d" % (job["seed"], n))
        feats = rnd.choice([f for f in FEATURE_MIXES if "fxp" in f] if job.get("force_fxp") else FEATURE_MIXES)
        modulus = rnd.choice(moduli)
        if "small_primes" in job and rnd.random() < 0.15:
            g = G.Gen(rnd, bl=rnd.choice([3, 4, 5]), res=rnd.choice([0, 1]), features=feats)
            modulus = rnd.choice([257, 1031, 65537])
            small = True
        else:
            g = G.Gen(rnd, features=feats)
            small = False
        prog = g.program(nstmts=rnd.randint(3, job.get("maxstmts", 12)))
        chunks = G.compile_chunks(prog.src)
        stmts = None
        vectors = [("primary", prog.primary(), False)]
        for _ in range(job.get("nvalid", 2)):
            vectors.append(("valid", G.mutate_inputs(prog, rnd, "valid"), False))
        vectors.append(("boundary", G.mutate_inputs(prog, rnd, "boundary"), False))
        vectors.append(("wild", G.mutate_inputs(prog, rnd, "wild", p=modulus), False))
        if props & {"C04", "C06"}:
            vectors.append(("primary-ignore", prog.primary(), True))
            vectors.append(("wild-ignore", G.mutate_inputs(prog, rnd, "wild", p=modulus), True))
            vectors.append(("boundary-ignore", G.mutate_inputs(prog, rnd, "boundary"), True))
        completed = []
        for vkind, inputs, ignore in vectors:
            marks = []

            def between(i, node, ns, marks=marks):
                marks.append((len(recorder.constraints), len(contracts.State.created)))
                if "C04" in props:
                    contracts.sweep("after statement %d" % i)

            contracts.clear()
            toggle = (not ignore) and vkind != "primary" and rnd.random() < 0.5
            out = G.run_api(prog, inputs, neutral, modulus=modulus, ignore=ignore, between=between, chunks=chunks, toggle=toggle)
            if toggle:
                for p in props:
                    runs[p].count("runs_after_checks_off_and_on_again")
            snap = out.snap
            ncon = len(snap["constraints"])
            done = out.exc is None
            key = _hash(prog.src, inputs, ignore, modulus)
            tags = sorted(set(prog.tags))
            for p in props:
                runs[p].count("runs")
                runs[p].count("runs_completed" if done else "runs_raised:" + type(out.exc).__name__)
            # ---------------- C01 -------------------------------------------------------------------
            if "C01" in props and not ignore:
                R = runs["C01"]
                if done:
                    bad = r1cs.unsatisfied(snap["constraints"], snap["values"], snap["p"])
                    R.count("constraints_evaluated", ncon)
                    R.case(cell=tags + (["small-prime"] if small else []) + ["vec:" + vkind], key=key, nontrivial=ncon > 0)
                    if bad or snap["online_bad"]:
                        stmts = stmts or stmt_tag_map(prog)
                        first = (bad or snap["online_bad"])[0]
                        si = next((i for i, m in enumerate(marks) if m[0] > first), None)
                        R.violation("unsatisfied-constraint", "constraint %d of %d unsatisfied after a run that completed with checks on"
                                    % (first, ncon), src=prog.src, inputs=inputs, bl=prog.bl, res=prog.res, p=modulus,
                                    statement=stmts[si] if si is not None else None, offline=bad[:5], online=snap["online_bad"][:5])
                    R.sample(dict(src=prog.src, inputs=inputs, bl=prog.bl, res=prog.res, p=modulus, constraints=ncon), cap=3)
                else:
                    R.case(nontrivial=False)
            # ---------------- C04 -------------------------------------------------------------------
            if "C04" in props:
                R = runs["C04"]
                contracts.sweep("end of run")
                nobj = len(contracts.State.created)
                R.count("objects_judged", nobj)
                R.count("contract_evaluations", contracts.State.evaluations)
                R.count("val_reports_judged", contracts.State.val_evaluations)
                contracts.State.evaluations = 0
                contracts.State.val_evaluations = 0
                mode = ("ignore" if ignore else "checked") + ("/raised" if not done else "")
                R.case(cell=[t + "|" + mode for t in tags] + ["vec:" + vkind], key=key, nontrivial=nobj > 0)
                if contracts.State.mismatches:
                    stmts = stmts or stmt_tag_map(prog)
                    o, val, wire, where = contracts.State.mismatches[0]
                    pos = next((i for i, x in enumerate(contracts.State.created) if x is o), None)
                    si = next((i for i, m in enumerate(marks) if pos is not None and m[1] > pos), out.stmt)
                    st = stmts[si] if si is not None and si < len(stmts) else None
                    R.violation(classify_c04(st, ignore, rt), "reported value %s but wire expression evaluates to %s (%s)" % (val, wire, where),
                                src=prog.src, inputs=inputs, ignore=ignore, bl=prog.bl, res=prog.res, p=modulus, statement=st,
                                n_mismatches=len(contracts.State.mismatches))
                R.sample(dict(src=prog.src, inputs=inputs, ignore=ignore, objects=nobj, completed=done), cap=3)
            # ---------------- differential (C05 / C14) ------------------------------------------------
            if props & {"C05", "C14"} and not ignore and not small:
                differential(runs, props, prog, inputs, out, chunks, modulus, key, tags, vkind)
            if done:
                completed.append((vkind, inputs, ignore, out))
            contracts.clear()
        # ---------------- C06 ---------------------------------------------------------------------------
        if "C06" in props and len(completed) >= 2:
            R = runs["C06"]
            ref = completed[0]
            ref_tr = r1cs.canon_trace(ref[3].snap)
            ref_lcs = result_lcs(ref[3], modulus)
            for vkind, inputs, ignore, out in completed[1:]:
                tr = r1cs.canon_trace(out.snap)
                lcs = result_lcs(out, modulus)
                nontriv = len(ref_tr) > 0 and inputs != ref[1]
                pk = "%s~%s" % (ref[0], vkind)
                R.case(cell=[t + "|" + pk for t in tags] + ["pair:" + pk], key=_hash(prog.src, ref[1], inputs, ignore), nontrivial=nontriv)
                R.count("trace_events_compared", len(tr))
                if tr != ref_tr or lcs != ref_lcs:
                    pos = next((i for i, (a, b) in enumerate(zip(tr, ref_tr)) if a != b), min(len(tr), len(ref_tr)))
                    what = "canonical traces differ at event %d (lengths %d vs %d)" % (pos, len(ref_tr), len(tr)) \
                        if tr != ref_tr else "result wire expressions differ"
                    R.violation("trace-depends-on-values", what, src=prog.src, inputs_a=ref[1], ignore_a=ref[2],
                                inputs_b=inputs, ignore_b=ignore, bl=prog.bl, res=prog.res, p=modulus,
                                event_a=ref_tr[pos] if pos < len(ref_tr) else None, event_b=tr[pos] if pos < len(tr) else None)
                R.sample(dict(src=prog.src, inputs_a=ref[1], inputs_b=inputs, ignore_b=ignore, events=len(tr)), cap=3)
    return {p: runs[p].export() for p in props}


def result_lcs(out, p):
    res = []
    for name in sorted(out.ns):
        if name[0] in "vxg" and name[1:].isdigit():
            lc = lc_of(out.ns[name])
            if lc is not None and hasattr(lc, "d"):
                res.append((name, r1cs.canon_lc(lc.d, p)))
    return res


def classify_c04(stmt, ignore, rt):
    return "value-wire-mismatch"


_VAR = re.compile(r"^([vxg]\d+) = (.*)$", re.S)


def differential(runs, props, prog, inputs, out, chunks, modulus, key, tags, vkind):
    """compare the API run with the native twin on the same inputs"""
    from vf.gen import prog as G
    from vf.ref import model
    ref = G.run_ref(prog, inputs, chunks=chunks, p=modulus)
    must = isinstance(ref.exc, model.MustRaise)
    ref_other = ref.exc is not None and not must
    masked = [f for f in ref.flags if f.startswith("mech:") or f.startswith("huge:")]
    if masked:
        # a known mechanism (judged exactly by the operation half) or a value beyond p/2 occurred somewhere in this run,
        # possibly inside a region whose variables are not visible: everything downstream legitimately differs
        for p in props & {"C05", "C14"}:
            runs[p].count("twin_runs")
            runs[p].count("not_judged:" + masked[0].split(":")[0])
        return
    if any(hasattr(v, "num") and abs(v.num()) >= modulus // 4 for k, v in ref.ns.items() if k[0] in "vxg" and k[1:].isdigit()):
        # a value left (-p/4, p/4): the library legitimately continues with another representative (DESIGN 6.2, 6.10)
        for p in props & {"C05", "C14"}:
            runs[p].count("twin_runs")
            runs[p].count("not_judged:value-beyond-p/4")
        return
    for p in props & {"C05", "C14"}:
        runs[p].count("twin_runs")
    if ref_other:
        # the model cannot express this program on these inputs (e.g. TypeError on POISON): not judged
        for p in props & {"C05", "C14"}:
            runs[p].count("twin_not_expressible:" + type(ref.exc).__name__)
        return
    fx_prog = any(c.startswith("P") and c.endswith("Fxp") for c, _ in prog.inputs)
    owner = "C14" if fx_prog and "C14" in props else ("C05" if "C05" in props else None)
    if out.exc is not None and raised_under_false_guard(out.exc):
        # an exception that escapes a region whose guard is false is C07's subject, not a domain question
        for p in props & {"C05", "C14"}:
            runs[p].count("api_raised_under_false_guard(C07)")
        return
    if out.exc is not None:
        # API raised: allowed if the twin must raise at (or before) that statement, or flagged the domain
        if must and ref.stmt is not None and ref.stmt <= out.stmt:
            for p in props & {"C05", "C14"}:
                runs[p].count("both_raise")
            return
        if ref.flags:
            for p in props & {"C05", "C14"}:
                runs[p].count("api_raised_outside_inner_domain")
            return
        if any(isinstance(v, int) and abs(v) >= modulus // 4 for v in inputs) or \
                any(hasattr(v, "num") and abs(v.num()) >= modulus // 4 for k, v in ref.ns.items() if k[0] in "vxg" and k[1:].isdigit()):
            # (the inputs themselves count: a variable may have been overwritten by the time the twin's run ends)
            for p in props & {"C05", "C14"}:
                runs[p].count("api_raised_with_values_beyond_p/4")
            return
        if ref.exc is None or (must and ref.stmt > out.stmt):
            stmts = stmt_tag_map(prog)
            st = stmts[out.stmt]
            own = "C14" if (("Fxp" in st or owner == "C14") and "C14" in props) else ("C05" if "C05" in props else owner)
            if own is None:
                return
            if own == "C14":
                # C14 allows an operation to raise; counted, not judged
                runs[own].count("api_raised_in_domain")
                return
            runs[own].violation(classify_raise(st, out.exc), "raised %s: %s inside the documented domain" % (
                type(out.exc).__name__, str(out.exc)[:120]), src=prog.src, inputs=inputs, statement=st, bl=prog.bl,
                res=prog.res, p=modulus)
        return
    # API completed
    if must:
        stmts = stmt_tag_map(prog)
        st = stmts[ref.stmt]
        own = "C05" if "C05" in props else owner
        if own:
            runs[own].violation(classify_noraise(st, ref.exc), "completed although the twin must raise: %s" % ref.exc,
                                src=prog.src, inputs=inputs, statement=st, bl=prog.bl, res=prog.res, p=modulus)
        return
    # both completed: compare every named variable, attribute to the first mismatch in definition order
    names = [n for n in out.ns if n[0] in "vxg" and n[1:].isdigit() and n in ref.ns]
    names.sort(key=lambda s: int(s[1:]))
    half = modulus // 2
    ncmp = {"C05": 0, "C14": 0}
    for name in names:
        kind, num = api_number(out.ns[name], prog.res)
        r = ref.ns[name]
        if kind is None or r is model.POISON or not hasattr(r, "num"):
            continue
        rnum = r.num()
        own = "C14" if (kind == "fxp" or r.kind == "fxp") else "C05"
        if own not in props:
            continue
        if abs(rnum) >= half // 2:
            runs[own].count("stopped_at_value_beyond_p/4")
            break
        ncmp[own] += 1
        scale = (1 << prog.res) if (kind == "fxp" or r.kind == "fxp") else 1
        a, b = num * scale, rnum * scale
        same = (a == b) if abs(b) < half else (a.denominator == 1 and b.denominator == 1 and (int(a) - int(b)) % modulus == 0)
        if not same:
            stmts = stmt_tag_map(prog)
            st = next((s for s in stmts if s.startswith(name + " =") or ("\n%s = " % name) in s), None)
            if ref.flags and a.denominator == 1 and b.denominator == 1 and (int(a) - int(b)) % modulus == 0:
                runs[own].count("congruent_outside_domain")
                break
            runs[own].violation(classify_value(st, ref, out, prog, modulus), "variable %s: API %s (%s) vs twin %s (%s)" % (name, num, kind, rnum, r.kind),
                                src=prog.src, inputs=inputs, statement=st, bl=prog.bl, res=prog.res, p=modulus, flags=ref.flags[:3])
            break
    for own, n in ncmp.items():
        if own in props:
            runs[own].count("variables_compared", n)
            runs[own].case(cell=[t for t in tags] + ["vec:" + vkind], key=key, nontrivial=n > 0)
            if n:
                runs[own].sample(dict(src=prog.src, inputs=inputs, compared=n), cap=3)


def raised_under_false_guard(exc):
    """did the exception pass through a guarded()/lazy region whose condition value is 0?"""
    tb = exc.__traceback__
    while tb is not None:
        fr = tb.tb_frame
        if fr.f_code.co_name == "__guarded":
            cond = fr.f_locals.get("cond")
            v = getattr(getattr(cond, "lc", cond), "value", None)
            if v == 0:
                return True
        tb = tb.tb_next
    return False


def _operands(st):
    m = _VAR.match(st or "")
    return m.group(2) if m else (st or "")


def classify_value(st, ref, out, prog, modulus):
    """mechanism key for a value mismatch; only exact, mechanism-level patterns map onto known findings"""
    from vf.ref import model
    expr = _operands(st)
    m = re.match(r"^(\w+) \*\* (\w+)$", expr)
    if m:
        base, ex = m.group(1), m.group(2)
        bv = ref.ns.get(base)
        evv = ref.ns.get(ex)
        if isinstance(bv, model.RBool):
            return "bool-pow-ignores-exponent"
        if isinstance(evv, model.RInt) and (isinstance(bv, model.RInt) and bv.v < 0 or (base.lstrip("-").isdigit() and int(base) < 0)):
            return "secret-exponent-negative-base-reduced-mod-p"
    return "value-differs:" + (re.sub(r"[vxg]\d+", "_", expr)[:40])


def classify_raise(st, exc):
    return "raised-in-domain:" + type(exc).__name__


def classify_noraise(st, exc):
    return "no-raise:" + str(exc).split("(")[0][:40]


def suite_under_monitors(job):
    """The repository's own tests as one more workload: run them in-process with the recording backend attached, the
    LinComb constructor contract on and every emitted constraint evaluated online (C01) / every object judged (C04)."""
    import os
    from vf import contracts, recorder
    props = set(job["props"])
    rt = boot.attach()
    contracts.install_lincomb_contract()
    contracts.install_val_contracts()
    contracts.State.track = True
    runs = {p: common.Run(p, LEVEL[p], RULES[p]) for p in props}
    import pytest
    recorder.reset()
    rc = pytest.main(["-q", "-p", "no:cacheprovider", "-x", os.path.join(boot.REPO, "test")])
    ncon = len(recorder.constraints)
    contracts.sweep("end of test-suite")
    for p in props:
        runs[p].count("repository_tests_run_under_monitors", 1)
    if rc != 0:
        for p in props:
            runs[p].inconc("the repository's tests did not pass on the recording backend (pytest exit %s)" % rc)
    if "C01" in props:
        R = runs["C01"]
        R.count("constraints_evaluated", ncon)
        R.case(cell="repository-test-suite", key=("suite",), nontrivial=ncon > 0)
        bad = r1cs.unsatisfied(recorder.constraints, recorder.values, recorder.modulus)
        if bad or recorder.online_bad:
            R.violation("unsatisfied-constraint", "constraint %s emitted while running the repository's own tests is not satisfied by the recorded witness" % (
                (bad or recorder.online_bad)[:3],), workload="repository test-suite")
    if "C04" in props:
        R = runs["C04"]
        R.count("objects_judged", len(contracts.State.created))
        R.count("contract_evaluations", contracts.State.evaluations)
        R.case(cell="repository-test-suite", key=("suite",), nontrivial=len(contracts.State.created) > 0)
        if contracts.State.mismatches:
            o, val, wire, where = contracts.State.mismatches[0]
            R.violation("value-wire-mismatch", "while running the repository's own tests: reported value %s but wire expression evaluates to %s" % (val, wire),
                        workload="repository test-suite", n_mismatches=len(contracts.State.mismatches))
    return {p: runs[p].export() for p in props}


def examples_under_monitors(job):
    """The repository's runnable example scripts as workloads (recording backend, constructor contract, evaluators).
    Examples written against older APIs or absent packages fail to start and are only counted."""
    import contextlib
    import glob
    import io
    import os
    import runpy
    import sys
    from vf import contracts, recorder
    props = set(job["props"])
    rt = boot.attach()
    contracts.install_lincomb_contract()
    contracts.install_val_contracts()
    contracts.State.track = True
    neutral = boot.Neutral()
    runs = {p: common.Run(p, LEVEL[p], RULES[p]) for p in props}
    for ex in sorted(glob.glob(os.path.join(boot.REPO, "examples", "*.py"))):
        neutral()
        contracts.clear()
        argv = sys.argv
        sys.argv = [ex, "3"]
        err = None
        try:
            with contextlib.redirect_stdout(io.StringIO()), contextlib.redirect_stderr(io.StringIO()):
                runpy.run_path(ex, run_name="__main__")
        except BaseException as e:  # noqa
            err = e
        finally:
            sys.argv = argv
        name = os.path.basename(ex)
        for p in props:
            runs[p].count("examples_started")
        if err is not None:
            for p in props:
                runs[p].count("examples_not_runnable_here")
            rt.guard = None
            rt._ignore_errors = False
            rt.LinComb.ONE = rt.LinComb.ONE_SAFE
            continue
        ncon = len(recorder.constraints)
        if "C01" in props:
            R = runs["C01"]
            R.count("constraints_evaluated", ncon)
            R.case(cell="example:" + name, key=("example", name), nontrivial=ncon > 0)
            bad = r1cs.unsatisfied(recorder.constraints, recorder.values, recorder.modulus)
            if bad or recorder.online_bad:
                R.violation("unsatisfied-constraint", "examples/%s completes but constraint %s is not satisfied by the recorded witness" % (name, (bad or recorder.online_bad)[:3]),
                            workload="examples/" + name)
        if "C04" in props:
            R = runs["C04"]
            contracts.sweep("end of example")
            R.count("objects_judged", len(contracts.State.created))
            R.case(cell="example:" + name, key=("example", name), nontrivial=len(contracts.State.created) > 0)
            if contracts.State.mismatches:
                o, val, wire, where = contracts.State.mismatches[0]
                R.violation("value-wire-mismatch", "examples/%s: reported value %s but wire expression evaluates to %s" % (name, val, wire), workload="examples/" + name)
    return {p: runs[p].export() for p in props}


INDEX_PROGRAMS = [
    "x0 = PrivVal(I[0])\nx1 = PrivVal(I[1])\nA = Array([x0, x1, 7, x0 * x1])\nr = A[PrivVal(I[2])] + 0\n",
    "x0 = PrivVal(I[0])\nx1 = PrivVal(I[1])\nA = Array([x0, x1, 5])\nA[PrivVal(I[2])] = x0 + x1\nr = A[1] + A[PrivVal(I[3])] + 0\n",
    "x0 = PrivVal(I[0])\nx1 = PrivVal(I[1])\nA = Array([Array([x0, 1]), Array([x1, x0]), Array([3, 4])])\nr = A[PrivVal(I[2]), PrivVal(I[3])] + 0\nA[PrivVal(I[3]), PrivVal(I[2])] = x1\nr2 = A[1][PrivVal(I[3])] + 0\n",
    "x0 = PrivVal(I[0])\ni = PrivVal(I[2])\nj = i + PrivVal(I[3])\nA = Array([1, 2, x0, 4, 5])\nr = A[j] + A[i] * 2 + 0\n",
]

# loops whose bound is a secret: with and without max=, one- and two-argument forms, while loops.  I[2], I[3] are the bounds.
LOOP_PROGRAMS = [
    "_ = BranchingValues()\n_.s = PrivVal(I[0])\nfor i in _range(PrivVal(I[2])):\n    _.s = _.s + i * I[1]\n_endfor()\nr = _.s + 0\n",
    "_ = BranchingValues()\n_.s = PrivVal(I[0])\nfor i in _range(PrivVal(I[2]), max=4):\n    _.s = _.s * 2 + i\n_endfor()\nr = _.s + 0\n",
    "_ = BranchingValues()\n_.s = PrivVal(I[0])\nfor i in _range(PrivVal(I[3]), PrivVal(I[2]) + PrivVal(I[3])):\n    _.s = _.s + PrivVal(I[1])\n_endfor()\nr = _.s + 0\n",
    "_ = BranchingValues()\n_.s = PrivVal(I[0])\nfor i in _range(1, PrivVal(I[2]) + 1, max=5):\n    _.s = _.s + i * i\n_endfor()\nr = _.s + 0\n",
    "_ = BranchingValues()\n_.s = PrivVal(I[0])\n_.n = PrivVal(I[2])\nk = 0\nwhile _while(_.n > 0) and k < 5:\n    _.s = _.s + _.n\n    _.n = _.n - 1\n    k += 1\n_endwhile()\nr = _.s + 0\n",
    "_ = BranchingValues()\n_.s = PrivVal(I[0])\nn = PrivVal(I[2])\nfor i in _range(n):\n    if _if(_.s > i):\n        _.s = _.s - 1\n    _endif()\n_endfor()\nr = _.s + 0\n",
]


def loop_family(job):
    """C06 for loops with a secret bound: whatever the bound's value, the runs that complete must emit one constraint system
    (a form the library refuses - e.g. a secret bound without max= - simply yields no completed runs)."""
    from vf.gen import prog as G
    from vf import recorder
    rt = boot.attach()
    neutral = boot.Neutral()
    R = common.Run("C06", LEVEL["C06"], RULES["C06"])
    rnd = random.Random(job["seed"])
    for src in LOOP_PROGRAMS:
        prog = G.Prog(src, [], 16, 0)
        chunks = G.compile_chunks(src)
        ref = None
        for trial in range(job.get("n", 12)):
            inputs = [rnd.randint(-9, 9), rnd.randint(-9, 9), trial % 5 if trial < 5 else rnd.randint(0, 4), rnd.randint(0, 2)]
            out = G.run_api(prog, inputs, neutral, modulus=recorder.BN254, chunks=chunks)
            if out.exc is not None:
                R.count("loop_family_runs_raised:" + type(out.exc).__name__)
                continue
            R.count("loop_family_runs_completed")
            tr = r1cs.canon_trace(out.snap)
            lcs = result_lcs(out, recorder.BN254)
            if ref is None:
                ref = (inputs, tr, lcs)
                continue
            R.count("trace_events_compared", len(tr))
            R.case(cell="secret-loop-bound-family|%d" % LOOP_PROGRAMS.index(src), key=_hash(src, inputs), nontrivial=inputs[2:] != ref[0][2:])
            if tr != ref[1] or lcs != ref[2]:
                pos = next((i for i, (a, b) in enumerate(zip(tr, ref[1])) if a != b), min(len(tr), len(ref[1])))
                R.violation("trace-depends-on-values", "loop program: canonical trace for bounds %s differs from bounds %s at event %d (lengths %d vs %d)" % (
                    inputs[2:], ref[0][2:], pos, len(tr), len(ref[1])), src=src, inputs_a=ref[0], inputs_b=inputs, bl=16, res=0, p=recorder.BN254)
    return {"C06": R.export()}


def index_family(job):
    """C06 for secret array indices: every index value - in range with checks on, out of range / negative with checks
    off - must give the same constraint system."""
    from vf.gen import prog as G
    from vf import recorder
    rt = boot.attach()
    neutral = boot.Neutral()
    R = common.Run("C06", LEVEL["C06"], RULES["C06"])
    rnd = random.Random(job["seed"])
    for src in INDEX_PROGRAMS:
        prog = G.Prog(src, [], 16, 0)
        chunks = G.compile_chunks(src)
        ref = None
        for trial in range(job.get("n", 12)):
            checked = trial < 4
            idx = [rnd.randint(0, 1), rnd.randint(0, 1)] if checked else [rnd.choice([-1, -2, -5, 2, 3, 9, 0, 1]), rnd.choice([-1, -3, 4, 0, 1])]
            inputs = [rnd.randint(-9, 9), rnd.randint(-9, 9)] + idx
            out = G.run_api(prog, inputs, neutral, modulus=rnd.choice([recorder.BN254, recorder.BLS381]) if False else recorder.BN254, ignore=not checked, chunks=chunks)
            if out.exc is not None:
                R.count("index_family_runs_raised")
                continue
            tr = r1cs.canon_trace(out.snap)
            kind = "checked-in-range" if checked else ("unchecked-negative" if min(idx) < 0 else "unchecked")
            if ref is None:
                ref = (inputs, tr)
                continue
            R.count("trace_events_compared", len(tr))
            R.case(cell="array-index-family|" + kind, key=_hash(src, inputs, checked), nontrivial=inputs != ref[0])
            if tr != ref[1]:
                pos = next((i for i, (a, b) in enumerate(zip(tr, ref[1])) if a != b), min(len(tr), len(ref[1])))
                R.violation("trace-depends-on-values", "array program: canonical trace for indices %s (%s) differs from indices %s at event %d" % (
                    idx, kind, ref[0][2:], pos), src=src, inputs_a=ref[0], inputs_b=inputs, ignore_b=not checked, bl=16, res=0, p=recorder.BN254)
    return {"C06": R.export()}

FOREIGN_OPERANDS = ["3.0", "2.5", "-1.0", "0.0", "-0.0", "1e20", "float(2**60 + 2)", "True", "False", "Fraction(3, 1)", "Fraction(1, 2)",
                    "Decimal(2)", "None", "'2'", "(2+0j)", "[1]", "2.0 ** 70", "0.5", "1.0", "-3.0"]
FOREIGN_BINOPS = ["+", "-", "*", "/", "//", "%", "**", "<<", ">>", "&", "|", "^", "<", "<=", ">", ">=", "==", "!="]
FOREIGN_CALLS = ["{x}.assert_eq({o})", "{x}.assert_ne({o})", "{x}.assert_lt({o})", "{x}.assert_ge({o})", "r = {x}.if_else({o}, {y})", "r = {x}.if_else({y}, {o})",
                 "r = if_then_else({b}, {x}, {o})", "r = if_then_else({b}, {o}, {x})", "r = divmod({x}, {o})", "r = divmod({o}, {x})",
                 "r = pow({x}, {o})", "r = abs({x}) * {o}", "r = -({x} * {o})", "r = ({x} + {o}) * {y}", "r = {x} * {o} * {y}"]
FOREIGN_PRE = "from fractions import Fraction\nfrom decimal import Decimal\nx = PrivVal(I[0])\ny = PrivVal(I[1])\nb = PrivValBool(I[2])\nf = PrivValFxp(I[3])\n"


def foreign_operands(job):
    """C01 / C04 on operands of classes the library was not written for (whole and fractional floats, Fraction, Decimal, None,
    strings, complex numbers, lists) and on values far beyond the bit length: one operation per run.  Refusing is fine; an operation
    that returns must satisfy the two properties like any other."""
    from vf.gen import prog as G
    from vf import recorder, contracts
    props = set(job["props"])
    rt = boot.attach()
    neutral = boot.Neutral()
    if "C04" in props:
        contracts.install_lincomb_contract()
        contracts.install_val_contracts()
    contracts.State.track = "C04" in props
    runs = {p: common.Run(p, LEVEL[p], RULES[p]) for p in props}
    rnd = random.Random(job["seed"])
    stmts = []
    for left in ("x", "b", "f"):
        for op in FOREIGN_BINOPS:
            for o in FOREIGN_OPERANDS:
                stmts.append("r = %s %s %s" % (left, op, o))
                stmts.append("r = %s %s %s" % (o, op, left))
    for call in FOREIGN_CALLS:
        for o in FOREIGN_OPERANDS:
            for left in ("x", "f"):
                stmts.append(call.format(x=left, y="y", b="b", o=o))
    if job.get("only_ops"):
        stmts = [st for st in stmts if any((" %s " % op) in st for op in job["only_ops"])]
    rnd.shuffle(stmts)
    stmts = stmts[:job.get("n", 400)]
    big = [(1 << 60) + 1, -(1 << 70) + 3, (1 << 53) + 1, (1 << 64) - 1, 3 * (1 << 55) + 5]
    for st in stmts:
        src = FOREIGN_PRE + st + "\n"
        chunks = G.compile_chunks(src)
        prog = G.Prog(src, [], 16, rnd.choice([0, 4, 8]))
        for ignore in ((False, True) if "C04" in props else (False,)):
            xv = rnd.choice(big + [rnd.randint(-9, 9), 5, 0, 70000, -70000])
            if rnd.random() < 0.4:
                # the secret's value equal to (next to) the foreign operand's: comparisons have both outcomes
                for tok in FOREIGN_OPERANDS:
                    if tok in st:
                        try:
                            from fractions import Fraction
                            from decimal import Decimal
                            ov = eval(tok, {"Fraction": Fraction, "Decimal": Decimal})
                            if isinstance(ov, (int, float, Fraction, Decimal)) and ov == int(ov) and abs(ov) < (1 << 62):
                                xv = int(ov) + rnd.choice([0, 0, 1, -1])
                        except Exception:  # noqa
                            pass
                        break
            inputs = [xv, rnd.choice(big + [3, -2]), rnd.randint(0, 1), rnd.choice([1.5, -2.25, 0.0, 3.0, 1000.5])]
            contracts.clear()
            out = G.run_api(prog, inputs, neutral, modulus=recorder.BN254, ignore=ignore, chunks=chunks)
            done = out.exc is None
            snap = out.snap
            key = _hash(src, inputs, ignore)
            for p in props:
                runs[p].count("foreign_operand_runs")
                runs[p].count("foreign_operand_runs_returned" if done else "foreign_operand_runs_refused:" + type(out.exc).__name__)
            if "C01" in props and not ignore:
                R = runs["C01"]
                if done:
                    bad = r1cs.unsatisfied(snap["constraints"], snap["values"], snap["p"])
                    R.count("constraints_evaluated", len(snap["constraints"]))
                    R.case(cell="foreign-operand|" + st.split("(")[0][:24], key=key, nontrivial=len(snap["constraints"]) > 0)
                    if bad or snap["online_bad"]:
                        R.violation("unsatisfied-constraint", "constraint %d of %d unsatisfied after a run that completed with checks on" % (
                            (bad or snap["online_bad"])[0], len(snap["constraints"])), src=src, inputs=inputs, bl=16, res=prog.res, p=recorder.BN254, statement=st)
                else:
                    R.case(nontrivial=False)
            if "C05" in props and not ignore and done and st.startswith(("r = x ", "r = b ")) and "r" in out.ns:
                # an operator that accepts the foreign operand must return what Python computes on the plain values (whole numbers only:
                # nothing is claimed about rounding)
                R = runs["C05"]
                from fractions import Fraction
                from decimal import Decimal
                try:
                    nns = {"x": inputs[0], "b": bool(inputs[2]), "Fraction": Fraction, "Decimal": Decimal}
                    exec(st, nns)
                    native = nns["r"]
                except Exception:  # noqa
                    native = None
                got = out.ns["r"]
                kind, num = api_number(got, prog.res)
                if kind is None and isinstance(got, (bool, int)):
                    num = int(got)        # a plain Python result (an operator that fell back to Python's default)
                whole = isinstance(native, (bool, int)) or (isinstance(native, (float, Fraction, Decimal)) and native == int(native) and abs(native) < (1 << 52))
                if st.startswith("r = b **"):
                    whole = False         # powers of a secret bit: judged by C05's own templates (known finding bool-pow-ignores-exponent)
                if native is not None and whole and num is not None and not isinstance(num, float) and abs(int(native)) < recorder.BN254 // 4:
                    R.count("values_compared")
                    R.case(cell="foreign-operand|value|" + st.split()[3], key=key)
                    if (int(num) - int(native)) % recorder.BN254:
                        R.violation("value-differs:foreign-operand", "%s on x=%s, b=%s returned %r, Python computes %r" % (st, inputs[0], inputs[2], got if kind is None else num, native),
                                    src=src, inputs=inputs, bl=16, res=prog.res, p=recorder.BN254, statement=st)
            if "C04" in props:
                R = runs["C04"]
                contracts.sweep("end of run")
                nobj = len(contracts.State.created)
                R.count("objects_judged", nobj)
                R.count("contract_evaluations", contracts.State.evaluations)
                contracts.State.evaluations = 0
                contracts.State.val_evaluations = 0
                R.case(cell="foreign-operand|%s|%s" % ("ignore" if ignore else "checked", "returned" if done else "refused"), key=key, nontrivial=nobj > 4)
                if contracts.State.mismatches:
                    o, val, wire, where = contracts.State.mismatches[0]
                    R.violation("value-wire-mismatch", "reported value %s but wire expression evaluates to %s (%s)" % (val, wire, where),
                                src=src, inputs=inputs, ignore=ignore, bl=16, res=prog.res, p=recorder.BN254, statement=st, n_mismatches=len(contracts.State.mismatches))
            contracts.clear()
    return {p: runs[p].export() for p in props}

def handled_refusals(job):
    """C01 for scripts that provoke a refusal and handle it: one operation on operands for which the reference twin must raise
    (a false assertion, an inexact or zero division, a value beyond the bit length ...) inside try / except, a little valid
    arithmetic afterwards, a normal end.  The run as a whole did not raise, so whatever the refused operation left in the
    constraint system must be satisfied by the witness like everything else."""
    from vf.gen import prog as G
    from vf.ref import model
    from vf import recorder, opcases
    from vf.checks import C07
    rt = boot.attach()
    neutral = boot.Neutral()
    R = common.Run("C01", LEVEL["C01"], RULES["C01"])
    rnd = random.Random(job["seed"])
    tmpls = [t for t in G.INT_T + G.BOOL_T + G.FXP_T + G.ASSERT_T if not t[0].startswith(("val_", "igprint", "repr_", "format_"))]
    for n in range(job["n"]):
        tid, rty, tmpl = rnd.choice(tmpls)
        bl = rnd.choice([4, 6, 8])
        res = rnd.choice([0, 1, 2]) if ("{f}" in tmpl or "{c}" in tmpl or "Fxp" in tmpl) else 0
        try:
            case = opcases.sample_case(tid, tmpl, rty, bl, res, rnd)
            ins = C07.sample_operands(case, tmpl, bl, res, rnd, model, G, want_valid=False)
        except Exception:  # noqa
            ins = None
        if ins is None:
            R.count("handled_refusal_no_invalid_operands")
            continue
        body = ("r = " if rty is not None else "") + case.expr
        src = case.pre_src + C07.HELPERS + "refused = 0\ntry:\n    " + body.replace("\n", "\n    ") + \
            "\nexcept (AssertionError, ValueError, ZeroDivisionError, RuntimeError, TypeError, OverflowError):\n    refused = 1\nafter = PrivVal(3) * PrivVal(4) + 1\nafter.assert_eq(13)\n"
        prog = G.Prog(src, [], bl, res)
        try:
            chunks = G.compile_chunks(src)
        except SyntaxError:
            continue
        out = G.run_api(prog, ins, neutral, modulus=recorder.BN254, chunks=chunks)
        R.count("handled_refusal_runs")
        key = _hash(src, ins)
        if out.exc is not None:
            R.count("handled_refusal_runs_raised_anyway:" + type(out.exc).__name__)
            R.case(nontrivial=False)
            continue
        R.count("handled_refusal_runs_refused" if out.ns.get("refused") else "handled_refusal_runs_accepted")
        snap = out.snap
        bad = r1cs.unsatisfied(snap["constraints"], snap["values"], snap["p"])
        R.count("constraints_evaluated", len(snap["constraints"]))
        R.case(cell="handled-refusal|%s|%s" % (tid, "refused" if out.ns.get("refused") else "accepted"), key=key, nontrivial=len(snap["constraints"]) > 0)
        if (bad or snap["online_bad"]) and out.ns.get("refused"):
            R.violation("unsatisfied-constraint:after-handled-refusal", "%s on %s was refused, the script handled the refusal and ended normally, but constraint %d of %d is unsatisfied" % (
                case.expr, ins, (bad or snap["online_bad"])[0], len(snap["constraints"])), src=src, inputs=ins, bl=bl, res=res, p=recorder.BN254, statement=case.expr)
        elif bad or snap["online_bad"]:
            R.count("accepted_invalid_operation_left_unsatisfied_constraint")      # not refused at all: the ordinary C01 workload's business
    return {"C01": R.export()}


def fingerprints(job):
    """C06 across interpreters: the same programs (generated from the same seed) run in two processes that differ in their
    hash seed and in the secret inputs; returns one fingerprint of the canonical trace per program (None if the run raised)"""
    import hashlib
    from vf.gen import prog as G
    from vf import recorder
    from vf.checks import C09
    rt = boot.attach()
    neutral = boot.Neutral()
    out = []
    srcs = []
    for n in range(job["nprogs"]):
        rnd = random.Random("%s/%d" % (job["seed"], n))
        if n % 2 == 0:
            # block-API program: several context variables modified under secret conditions
            tg = C09.TreeGen(rnd)
            tree = tg.program()
            head = ["_ = BranchingValues()", "_.a = PrivVal(I[0])", "_.b = PrivVal(I[1])", "_.c = PrivVal(I[2])"]
            if tg.lists:
                head += ["_.l = [_.a + 0, _.b + 1, ConstVal(3)]", "_.m = [[_.a + 1, _.b + 0], [_.c + 0, ConstVal(2)]]"]
            if tg.fxp:
                head += ["_.f = PrivValFxp(I[0] / 2.0)"]
            if tg.arrays:
                head += ["_.arr = Array([_.a + 1, _.b + 2, ConstVal(9)])", "_.arr2 = Array([Array([_.a + 0, ConstVal(1)]), Array([_.b + 0, _.c + 0])])"]
            if tg.shared:
                head += ["S = [_.a + 2, _.b + 3, ConstVal(5)]", "T = [_.c + 1, ConstVal(7), _.a + 0]"]
            src = "\n".join(head + C09.render(tree, True)) + "\n"
            vecs = [[rnd.randint(0, 6), rnd.randint(0, 6), rnd.randint(0, 6)] for _ in range(2)]
            prog = G.Prog(src, [], 32, 4)
            # the native twin decides whether the run is inside what C09 judges at all (no loop bound below its start - the known
            # finding F-Z -, no value leaving the range in which comparisons fit, no stop beyond max with checkstopmax)
            thead = ["a = I[0]", "b = I[1]", "c = I[2]"]
            if tg.lists:
                thead += ["l = [a + 0, b + 1, 3]", "m = [[a + 1, b + 0], [c + 0, 2]]"]
            if tg.fxp:
                thead += ["f = I[0] / 2.0"]
            if tg.arrays:
                thead += ["arr = [a + 1, b + 2, 9]", "arr2 = [[a + 0, 1], [b + 0, c + 0]]"]
            if tg.shared:
                thead += ["S = [a + 2, b + 3, 5]", "T = [c + 1, 7, a + 0]"]
            tns = {"I": list(vecs[job["vec"] % 2]), "TwinMustRaise": C09.TwinMustRaise, "NEG": [], "chk": C09.chk}
            try:
                exec(compile("\n".join(thead + C09.render(tree, False)) + "\n", "<vftwin>", "exec"), tns)
                outside = bool(tns["NEG"])
            except Exception:
                outside = True
            if outside or ({"newvar-in-some-branches-only", "list-length-change-in-region"} & tg.kinds):
                out.append(None)
                srcs.append(src)
                continue
        else:
            g = G.Gen(rnd, features=rnd.choice(FEATURE_MIXES))
            prog = g.program(nstmts=rnd.randint(3, 10))
            src = prog.src
            vecs = [prog.primary(), G.mutate_inputs(prog, rnd, "valid")]
        inputs = vecs[job["vec"] % 2]
        try:
            res = G.run_api(prog, inputs, neutral, modulus=recorder.BN254)
        except SyntaxError:
            out.append(None)
            srcs.append(src)
            continue
        srcs.append(src)
        if res.exc is not None:
            out.append(None)
            continue
        tr = r1cs.canon_trace(res.snap)
        out.append([hashlib.sha1(repr(tr).encode()).hexdigest(), len(tr), inputs])
    return dict(fingerprints=out, sources=srcs if job.get("keep_sources") else None)
