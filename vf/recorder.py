"""Recording backend: implements the complete pysnark backend interface and logs every call.

No knowledge of pysnark.  Linear combinations are immutable {var_index: int_coeff} maps; index 0 is the
constant one, public and private variables share one index space in creation order.
"""
BN254 = 21888242871839275222246405745257275088548364400416034343698204186575808495617
BLS381 = 52435875175126190479447740508185965837690552500527637822603658699938581184513
C25519 = 7237005577332262213973186563042994240857116359379907606001950938285454250989

modulus = BN254


class LC:
    __slots__ = ("d",)

    def __init__(self, d):
        self.d = d

    def __add__(self, o):
        d = dict(self.d)
        for k, v in o.d.items():
            d[k] = d.get(k, 0) + v
        return LC(d)

    def __sub__(self, o):
        return self + (-o)

    def __mul__(self, k):
        if not isinstance(k, int):
            raise TypeError("recorder LC scaled by non-int: %r" % (k,))
        return LC({a: b * k for a, b in self.d.items()})

    def __neg__(self):
        return self * -1

    def __repr__(self):
        return "LC(%r)" % (self.d,)


values = [1]
kinds = ["one"]
constraints = []        # (A, B, C) dicts
events = []             # ("priv"|"pub", idx, val) | ("con", n)
online_bad = []         # constraint numbers unsatisfied at the moment of emission
prove_calls = [0]
calls = {"privval": 0, "pubval": 0, "add_constraint": 0, "fieldinverse": 0, "zero": 0, "one": 0}


def set_modulus(p):
    global modulus
    modulus = p


def reset():
    del values[1:]
    del kinds[1:]
    del constraints[:]
    del events[:]
    del online_bad[:]
    prove_calls[0] = 0


def privval(val):
    calls["privval"] += 1
    values.append(val)
    kinds.append("priv")
    events.append(("priv", len(values) - 1, val))
    return LC({len(values) - 1: 1})


def pubval(val):
    calls["pubval"] += 1
    values.append(val)
    kinds.append("pub")
    events.append(("pub", len(values) - 1, val))
    return LC({len(values) - 1: 1})


def zero():
    calls["zero"] += 1
    return LC({})


def one():
    calls["one"] += 1
    return LC({0: 1})


def fieldinverse(val):
    calls["fieldinverse"] += 1
    if val % modulus == 0:
        raise ZeroDivisionError("no inverse exists")     # the class every real backend raises (pysnark.gmpy.invert)
    return pow(val, -1, modulus)


def get_modulus():
    return modulus


def ev(lc):
    return sum(values[k] * c for k, c in lc.d.items()) % modulus


def add_constraint(v, w, y):
    calls["add_constraint"] += 1
    n = len(constraints)
    constraints.append((v.d, w.d, y.d))
    events.append(("con", n))
    if (ev(v) * ev(w) - ev(y)) % modulus:
        online_bad.append(n)


def prove():
    prove_calls[0] += 1


def snapshot():
    """Immutable copy of the current trace."""
    return {
        "p": modulus,
        "values": list(values),
        "kinds": list(kinds),
        "constraints": [(dict(a), dict(b), dict(c)) for a, b, c in constraints],
        "events": list(events),
        "online_bad": list(online_bad),
    }
